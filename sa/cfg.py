"""E2 - statement-level control-flow graphs, dominators, post-dominators, path enumeration.

The CFG has one node per simple statement, one `test` node per branch condition followed by explicit
`true` / `false` edge nodes (so "dominated by the false edge of test T" is ordinary node dominance),
a loop head per `for`, and distinct exits for return/fall-through (`exit`) and for explicit `raise`
(`rexit`).  Exceptional edges from arbitrary calls are modelled only inside `try` bodies (every
statement of a try body may jump to each handler).
"""
import ast

from .report import AnalysisError

FuncNode = (ast.FunctionDef, ast.AsyncFunctionDef)


class Node:
    __slots__ = ("id", "kind", "ast", "owner", "succ", "pred", "label")

    def __init__(self, id, kind, astnode=None, owner=None, label=""):
        self.id = id
        self.kind = kind
        self.ast = astnode
        self.owner = owner
        self.succ = []
        self.pred = []
        self.label = label

    def __repr__(self):
        t = ""
        if self.ast is not None:
            try:
                t = ast.unparse(self.ast).split("\n")[0][:50]
            except Exception:
                t = type(self.ast).__name__
        return "<%d %s %s>" % (self.id, self.kind, t)


class CFG:
    def __init__(self, fnode):
        self.fnode = fnode
        self.nodes = []
        self.entry = self._new("entry")
        self.exit = self._new("exit")
        self.rexit = self._new("rexit")
        self._loops = []      # (continue_target, break_collector)
        self._tries = []      # list of handler-entry node lists
        self._finals = []
        body = fnode.body if not isinstance(fnode, list) else fnode
        out = self._block(body, [self.entry])
        for n in out:
            self._edge(n, self.exit)
        self._dom = None
        self._pdom = None

    # ---- construction ---------------------------------------------------------------
    def _new(self, kind, astnode=None, owner=None, label=""):
        n = Node(len(self.nodes), kind, astnode, owner, label)
        self.nodes.append(n)
        return n

    def _edge(self, a, b):
        if b not in a.succ:
            a.succ.append(b)
            b.pred.append(a)

    def _join(self, preds, node):
        for p in preds:
            self._edge(p, node)
        return node

    def _exc_targets(self):
        """Where an exception raised here may go: handlers of the innermost try, else rexit."""
        if self._tries:
            return self._tries[-1]
        return [self.rexit]

    def _block(self, stmts, preds):
        cur = list(preds)
        for st in stmts:
            cur = self._stmt(st, cur)
        return cur

    def _cond(self, test, owner, preds):
        t = self._join(preds, self._new("test", test, owner))
        tr = self._new("true", test, owner)
        fa = self._new("false", test, owner)
        self._edge(t, tr)
        self._edge(t, fa)
        if self._tries:   # evaluating a condition inside a try body may raise
            for h in self._tries[-1]:
                self._edge(t, h)
        return tr, fa

    def _stmt(self, st, preds):
        if not preds:
            # unreachable code: still build it (so nodes exist) but from no predecessor
            pass
        if isinstance(st, ast.If):
            tr, fa = self._cond(st.test, st, preds)
            a = self._block(st.body, [tr])
            b = self._block(st.orelse, [fa])
            return a + b
        if isinstance(st, ast.While):
            head = self._new("loophead", st, st)
            self._join(preds, head)
            const_true = isinstance(st.test, ast.Constant) and bool(st.test.value) is True
            tr, fa = self._cond(st.test, st, [head])
            brk = []
            self._loops.append((head, brk))
            body_out = self._block(st.body, [tr])
            self._loops.pop()
            for n in body_out:
                self._edge(n, head)
            out = list(brk)
            if const_true:
                # `while True`: the false edge is infeasible; keep node but make it dead
                fa.pred.clear()
                for n in self.nodes:
                    if fa in n.succ:
                        n.succ.remove(fa)
            else:
                out += self._block(st.orelse, [fa])
            return out
        if isinstance(st, (ast.For, ast.AsyncFor)):
            it = self._join(preds, self._new("stmt", st.iter, st, "iter"))
            if self._tries:
                for h in self._tries[-1]:
                    self._edge(it, h)
            head = self._new("loophead", st, st)
            self._edge(it, head)
            body_in = self._new("true", st, st, "next")
            done = self._new("false", st, st, "done")
            self._edge(head, body_in)
            self._edge(head, done)
            brk = []
            self._loops.append((head, brk))
            body_out = self._block(st.body, [body_in])
            self._loops.pop()
            for n in body_out:
                self._edge(n, head)
            return brk + self._block(st.orelse, [done])
        if isinstance(st, (ast.With, ast.AsyncWith)):
            en = self._join(preds, self._new("with_enter", st, st))
            if self._tries:
                for h in self._tries[-1]:
                    self._edge(en, h)
            out = self._block(st.body, [en])
            ex = self._new("with_exit", st, st)
            self._join(out, ex)
            return [ex]
        if isinstance(st, ast.Try):
            return self._try(st, preds)
        if isinstance(st, ast.Return):
            n = self._join(preds, self._new("return", st, st))
            if self._tries and st.value is not None and _has_call(st.value):
                for h in self._tries[-1]:
                    self._edge(n, h)
            if self._finals:
                # route through a copy of the innermost finally body
                out = self._block(self._finals[-1], [n])
                for o in out:
                    self._edge(o, self.exit)
            else:
                self._edge(n, self.exit)
            return []
        if isinstance(st, ast.Raise):
            n = self._join(preds, self._new("raise", st, st))
            for t in self._exc_targets():
                self._edge(n, t)
            if self._tries and not self._catches_all(self._tries[-1]):
                # may propagate outward too
                outer = self._tries[-2] if len(self._tries) > 1 else [self.rexit]
                for t in outer:
                    self._edge(n, t)
            return []
        if isinstance(st, ast.Break):
            n = self._join(preds, self._new("break", st, st))
            if not self._loops:
                raise AnalysisError("break outside loop")
            self._loops[-1][1].append(n)
            return []
        if isinstance(st, ast.Continue):
            n = self._join(preds, self._new("continue", st, st))
            if not self._loops:
                raise AnalysisError("continue outside loop")
            self._edge(n, self._loops[-1][0])
            return []
        if isinstance(st, ast.Assert):
            n = self._join(preds, self._new("stmt", st, st))
            if isinstance(st.test, ast.Constant) and not st.test.value:
                for t in self._exc_targets():
                    self._edge(n, t)
                return []
            return [n]
        if isinstance(st, FuncNode + (ast.ClassDef,)):
            n = self._join(preds, self._new("def", st, st))
            return [n]
        if isinstance(st, ast.Match):
            raise AnalysisError("match statement not modelled by the CFG builder")
        # simple statement
        n = self._join(preds, self._new("stmt", st, st))
        if self._tries:
            for h in self._tries[-1]:
                self._edge(n, h)
        return [n]

    @staticmethod
    def _catches_all(handlers):
        for h in handlers:
            t = h.ast.type if isinstance(h.ast, ast.ExceptHandler) else None
            if t is None:
                return True
            if isinstance(t, ast.Name) and t.id in ("Exception", "BaseException"):
                return True
        return False

    def _try(self, st, preds):
        handlers = [self._new("except", h, st) for h in st.handlers]
        if st.finalbody:
            self._finals.append(st.finalbody)
        if handlers:
            self._tries.append(handlers)
        body_out = self._block(st.body, preds)
        if handlers:
            self._tries.pop()
        else_out = self._block(st.orelse, body_out)
        outs = list(else_out)
        for hn in handlers:
            outs += self._block(hn.ast.body, [hn])
        if st.finalbody:
            self._finals.pop()
            outs = self._block(st.finalbody, outs)
            # exceptional pass through finally (re-raises afterwards)
            if not handlers or not self._catches_all(handlers):
                fin_exc = self._new("finally_exc", st, st)
                for n in self.nodes:
                    pass
                exc_out = self._block(st.finalbody, [fin_exc])
                for o in exc_out:
                    for t in self._exc_targets():
                        self._edge(o, t)
                # every statement of the try body may raise into it
                for n in self.nodes:
                    if n.owner is not None and _lexically_in(n.owner, st.body) and n.kind in ("stmt", "with_enter", "raise"):
                        self._edge(n, fin_exc)
        return outs

    # ---- queries --------------------------------------------------------------------
    def reachable(self):
        seen = {self.entry}
        stack = [self.entry]
        while stack:
            n = stack.pop()
            for s in n.succ:
                if s not in seen:
                    seen.add(s)
                    stack.append(s)
        return seen

    def dominators(self):
        if self._dom is not None:
            return self._dom
        reach = self.reachable()
        nodes = [n for n in self.nodes if n in reach]
        allset = set(nodes)
        dom = {n: set(allset) for n in nodes}
        dom[self.entry] = {self.entry}
        changed = True
        while changed:
            changed = False
            for n in nodes:
                if n is self.entry:
                    continue
                ps = [p for p in n.pred if p in reach]
                new = set.intersection(*(dom[p] for p in ps)) if ps else set()
                new = new | {n}
                if new != dom[n]:
                    dom[n] = new
                    changed = True
        self._dom = dom
        return dom

    def dominates(self, a, b):
        d = self.dominators()
        return b in d and a in d[b]

    def postdominators(self, exit_node=None):
        """Post-dominators with respect to the normal exit (paths ending in an explicit raise are ignored)."""
        ex = exit_node or self.exit
        # nodes that can reach ex
        can = {ex}
        stack = [ex]
        while stack:
            n = stack.pop()
            for p in n.pred:
                if p not in can:
                    can.add(p)
                    stack.append(p)
        nodes = [n for n in self.nodes if n in can]
        allset = set(nodes)
        pdom = {n: set(allset) for n in nodes}
        pdom[ex] = {ex}
        changed = True
        while changed:
            changed = False
            for n in nodes:
                if n is ex:
                    continue
                ss = [s for s in n.succ if s in can]
                new = set.intersection(*(pdom[s] for s in ss)) if ss else set()
                new = new | {n}
                if new != pdom[n]:
                    pdom[n] = new
                    changed = True
        return pdom

    def nodes_of(self, astnode):
        return [n for n in self.nodes if n.owner is astnode or n.ast is astnode]

    def node_containing(self, expr):
        """The CFG node whose statement/test lexically contains the expression node."""
        best = None
        for n in self.nodes:
            if n.ast is None or n.kind in ("true", "false", "loophead", "except", "with_exit", "def", "finally_exc"):
                continue
            root = n.ast
            if n.kind == "with_enter":
                roots = [i.context_expr for i in root.items] + [i.optional_vars for i in root.items if i.optional_vars]
            elif n.kind == "stmt" and isinstance(n.owner, (ast.For, ast.AsyncFor)) and n.label == "iter":
                roots = [root]
            else:
                roots = [root]
            for r in roots:
                if isinstance(r, (ast.If, ast.While, ast.For, ast.With, ast.Try)):
                    continue
                for x in _walk_no_nested(r):
                    if x is expr:
                        best = n
        return best

    def reaches(self, a, b, avoiding=()):
        """Is there a path a ->+ b that avoids the given nodes?"""
        avoid = set(avoiding)
        seen = set()
        stack = [s for s in a.succ if s not in avoid]
        while stack:
            n = stack.pop()
            if n is b:
                return True
            if n in seen:
                continue
            seen.add(n)
            stack.extend(s for s in n.succ if s not in avoid)
        return False


def _has_call(e):
    return any(isinstance(n, ast.Call) for n in ast.walk(e))


def _lexically_in(node, stmts):
    for s in stmts:
        for n in ast.walk(s):
            if n is node:
                return True
    return False


def _walk_no_nested(root):
    stack = [root]
    while stack:
        n = stack.pop()
        yield n
        for c in ast.iter_child_nodes(n):
            if isinstance(c, FuncNode + (ast.Lambda, ast.ClassDef)):
                continue
            stack.append(c)


# --------------------------------------------------------------------------------------
# Syntax-directed path enumeration (acyclic regions: loop bodies, small functions)
# --------------------------------------------------------------------------------------

class Path:
    __slots__ = ("events", "term")

    def __init__(self, events, term):
        self.events = events     # list of ('cond', test, bool) | ('stmt', node) | ('loop', node) | ('with', node)
        self.term = term         # None (falls through) | 'continue' | 'break' | 'return' | 'raise'

    def conds(self):
        return [(e[1], e[2]) for e in self.events if e[0] == "cond"]

    def stmts(self):
        return [e[1] for e in self.events if e[0] == "stmt"]

    def feasible(self):
        """False when the path takes contradictory branches on the same condition atom with no store to any
        name/attribute the atom reads in between (a cheap, sound-for-pruning infeasibility test)."""
        known = {}     # atom text -> (polarity, set of names/attrs it reads)
        for ev in self.events:
            if ev[0] == "cond":
                cj = conjuncts(ev[1])
                facts = []
                if ev[2]:
                    facts = cj
                elif len(cj) == 1:
                    facts = [(cj[0][0], not cj[0][1])]
                else:
                    facts = [("(%s)" % ast.unparse(ev[1]), False)]
                for t, pol in facts:
                    if t in known and known[t][0] != pol:
                        return False
                    known[t] = (pol, _reads(t))
            elif ev[0] in ("stmt", "loop", "with"):
                stored = _stores(ev[1])
                if stored:
                    for t in [t for t, (_, rd) in known.items() if rd & stored]:
                        del known[t]
        return True


def conjuncts(test):
    """[(text, polarity)] of a test split on `and`, each atom in CANONICAL form so that equivalent spellings agree:
    `not X` flips polarity; `X is not None` -> (`X is None`, False); `a != b` -> (`a == b`, False); `a not in b` ->
    (`a in b`, False); all orderings become `<`: a>b -> (b < a), a<=b -> (b < a, False), a>=b -> (a < b, False)."""
    out = []
    if isinstance(test, ast.BoolOp) and isinstance(test.op, ast.And):
        for v in test.values:
            out.extend(conjuncts(v))
        return out
    pol = True
    while isinstance(test, ast.UnaryOp) and isinstance(test.op, ast.Not):
        pol = not pol
        test = test.operand
    if isinstance(test, ast.BoolOp) and isinstance(test.op, ast.Or) and not pol:
        # not (a or b) == not a and not b
        for v in test.values:
            out.extend((t, not p) for t, p in conjuncts(v)) if len(conjuncts(v)) == 1 else out.append(("(%s)" % ast.unparse(v), False))
        return out
    if isinstance(test, ast.Compare) and len(test.ops) == 1:
        l, r, op = ast.unparse(test.left), ast.unparse(test.comparators[0]), test.ops[0]
        if isinstance(op, ast.IsNot):
            return [("%s is %s" % (l, r), not pol)]
        if isinstance(op, ast.NotEq):
            return [("%s == %s" % (l, r), not pol)]
        if isinstance(op, ast.NotIn):
            return [("%s in %s" % (l, r), not pol)]
        if isinstance(op, ast.Gt):
            return [("%s < %s" % (r, l), pol)]
        if isinstance(op, ast.LtE):
            return [("%s < %s" % (r, l), not pol)]
        if isinstance(op, ast.GtE):
            return [("%s < %s" % (l, r), not pol)]
    return [(ast.unparse(test), pol)]


def G(text, pol=True):
    """Canonical (text, polarity) atom of a condition written as source text - for comparing with lexical guards."""
    cj = conjuncts(ast.parse(text, mode="eval").body)
    if len(cj) != 1:
        raise ValueError("G() expects a single atom: %s" % text)
    t, p = cj[0]
    return (t, p if pol else not p)


def _reads(text):
    try:
        tree = ast.parse(text, mode="eval")
    except SyntaxError:
        return {"<call>"}
    out = set()
    for n in ast.walk(tree):
        if isinstance(n, ast.Name):
            out.add(n.id)
        elif isinstance(n, ast.Attribute):
            out.add(ast.unparse(n))
        elif isinstance(n, ast.Call):
            out.add("<call>")
    return out


def _stores(node):
    out = set()
    for n in ast.walk(node):
        if isinstance(n, ast.Name) and isinstance(n.ctx, (ast.Store, ast.Del)):
            out.add(n.id)
        elif isinstance(n, ast.Attribute) and isinstance(n.ctx, (ast.Store, ast.Del)):
            out.add(ast.unparse(n))
    return out


def enumerate_paths(stmts, limit=4096, expand_with=True, try_mode="body"):
    """All acyclic paths through a statement list.  Inner loops are single opaque ('loop', node) events.

    try_mode 'body': a try statement contributes its body+else paths and, separately, one path per
    handler (prefix of the body is unknown, so the handler path starts with ('except', handler))."""
    out = [Path([], None)]
    for st in stmts:
        new = []
        for p in out:
            if p.term:
                new.append(p)
                continue
            for ev, term in _stmt_paths(st, limit, expand_with, try_mode):
                new.append(Path(p.events + ev, term))
                if len(new) > limit:
                    raise AnalysisError("path explosion (> %d paths)" % limit)
        out = new
    return out


def _stmt_paths(st, limit, expand_with, try_mode):
    if isinstance(st, ast.If):
        res = []
        for branch, val in ((st.body, True), (st.orelse, False)):
            for p in enumerate_paths(branch, limit, expand_with, try_mode):
                res.append(([("cond", st.test, val)] + p.events, p.term))
        return res
    if isinstance(st, ast.Continue):
        return [([("stmt", st)], "continue")]
    if isinstance(st, ast.Break):
        return [([("stmt", st)], "break")]
    if isinstance(st, ast.Return):
        return [([("stmt", st)], "return")]
    if isinstance(st, ast.Raise):
        return [([("stmt", st)], "raise")]
    if isinstance(st, (ast.For, ast.AsyncFor, ast.While)):
        return [([("loop", st)], None)]
    if isinstance(st, (ast.With, ast.AsyncWith)) and expand_with:
        res = []
        for p in enumerate_paths(st.body, limit, expand_with, try_mode):
            res.append(([("with", st)] + p.events + [("endwith", st)], p.term))
        return res
    if isinstance(st, ast.Try):
        res = []
        for p in enumerate_paths(st.body + st.orelse, limit, expand_with, try_mode):
            if st.finalbody and not p.term:
                for q in enumerate_paths(st.finalbody, limit, expand_with, try_mode):
                    res.append((p.events + q.events, q.term))
            elif st.finalbody:
                for q in enumerate_paths(st.finalbody, limit, expand_with, try_mode):
                    res.append((p.events + q.events, q.term or p.term))
            else:
                res.append((p.events, p.term))
        for h in st.handlers:
            for p in enumerate_paths(h.body, limit, expand_with, try_mode):
                if st.finalbody:
                    for q in enumerate_paths(st.finalbody, limit, expand_with, try_mode):
                        res.append(([("except", h)] + p.events + q.events, q.term or p.term))
                else:
                    res.append(([("except", h)] + p.events, p.term))
        return res
    if isinstance(st, ast.Assert) and isinstance(st.test, ast.Constant) and not st.test.value:
        return [([("stmt", st)], "raise")]
    return [([("stmt", st)], None)]


# --------------------------------------------------------------------------------------
# Reaching definitions for simple locals (flow-insensitive summary + single-assignment map)
# --------------------------------------------------------------------------------------

def local_defs(fnode):
    """name -> list of value expressions assigned to that local (None entry for non-simple bindings:
    loop targets, with-as, augmented assignment, tuple unpacking, parameters)."""
    defs = {}
    a = fnode.args
    for p in a.posonlyargs + a.args + a.kwonlyargs + ([a.vararg] if a.vararg else []) + ([a.kwarg] if a.kwarg else []):
        defs.setdefault(p.arg, []).append(None)
    for n in _walk_no_nested(fnode):
        if n is fnode:
            continue
        if isinstance(n, ast.Assign):
            for t in n.targets:
                _bind(t, n.value, defs)
        elif isinstance(n, ast.AnnAssign) and n.value is not None:
            _bind(n.target, n.value, defs)
        elif isinstance(n, ast.AugAssign):
            if isinstance(n.target, ast.Name):
                defs.setdefault(n.target.id, []).append(None)
        elif isinstance(n, (ast.For, ast.AsyncFor)):
            _bind(n.target, None, defs)
        elif isinstance(n, (ast.With, ast.AsyncWith)):
            for i in n.items:
                if i.optional_vars is not None:
                    _bind(i.optional_vars, None, defs)
        elif isinstance(n, ast.NamedExpr):
            _bind(n.target, n.value, defs)
        elif isinstance(n, ast.ExceptHandler) and n.name:
            defs.setdefault(n.name, []).append(None)
    return defs


def _bind(t, value, defs):
    if isinstance(t, ast.Name):
        defs.setdefault(t.id, []).append(value)
    elif isinstance(t, (ast.Tuple, ast.List)):
        if isinstance(value, (ast.Tuple, ast.List)) and len(value.elts) == len(t.elts) and \
                not any(isinstance(x, ast.Starred) for x in list(t.elts) + list(value.elts)):
            for a, b in zip(t.elts, value.elts):
                _bind(a, b, defs)
        else:
            for a in t.elts:
                _bind(a.value if isinstance(a, ast.Starred) else a, None, defs)


def single_defs(fnode):
    """Locals assigned exactly once from an expression: name -> expression."""
    return {k: v[0] for k, v in local_defs(fnode).items() if len(v) == 1 and v[0] is not None}


def lexical_guard(module, node, stop):
    """Conjuncts [(text, polarity)] of the enclosing `if` tests of `node` (innermost last), up to `stop`.
    An else-branch of a multi-conjunct test contributes the negated whole test as one atom."""
    out = []
    child = node
    p = module.parent.get(child)
    while p is not None and child is not stop:
        if isinstance(p, ast.If):
            if _in_block(child, p.body):
                out = conjuncts(p.test) + out
            elif _in_block(child, p.orelse):
                cj = conjuncts(p.test)
                if len(cj) == 1:
                    out = [(cj[0][0], not cj[0][1])] + out
                else:
                    out = [("(%s)" % ast.unparse(p.test), False)] + out
        elif isinstance(p, ast.IfExp):
            if child is p.body:
                out = conjuncts(p.test) + out
            elif child is p.orelse:
                cj = conjuncts(p.test)
                out = ([(cj[0][0], not cj[0][1])] if len(cj) == 1 else [("(%s)" % ast.unparse(p.test), False)]) + out
        elif isinstance(p, ast.While) and _in_block(child, p.body) and not (isinstance(p.test, ast.Constant) and p.test.value):
            out = conjuncts(p.test) + out
        child = p
        p = module.parent.get(child)
    return out


def _in_block(node, block):
    return any(node is s for s in block)
