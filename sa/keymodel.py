"""Shared model for C03 / C20: folded key tables, the interpreted decoder, and an independent reference segmentation."""
import codecs

from .objinterp import ObjInterp
from .report import AnalysisError

ENCODINGS = ("utf8", "ascii", "latin-1")


class KeyModel:
    def __init__(self, src):
        self.src = src
        self.it = ObjInterp(src)
        fold = self.it.folder
        self.curtsies = fold.const("events", "CURTSIES_NAMES", dict)
        self.curses = fold.const("events", "CURSES_NAMES", dict)
        self.prefixes = fold.const("events", "KEYMAP_PREFIXES", set)
        self.max_size = fold.const("events", "MAX_KEYPRESS_SIZE", int)
        self.special = fold.const("curtsieskeys", "CURTSIES_NAMES", dict)
        K = fold.module("events")["Keynames"]
        self.modes = {m: fold.v_attr(K, m) for m in ("CURTSIES", "CURSES", "BYTES")}
        self.tables = dict(self.curses)
        self.tables.update(self.curtsies)
        self.keys = set(self.curtsies) | set(self.curses)
        self.memo = {}

    def ref_prefixes(self):
        out = set()
        for k in self.keys:
            if k[:1] == b"\x1b":
                for i in range(1, len(k)):
                    out.add(k[:i])
        return out

    # ---- the interpreted decoder ------------------------------------------------------
    def get_key(self, seq, enc, mode, full):
        key = (seq, enc, mode, full)
        if key not in self.memo:
            self.memo[key] = self.it.call1("events", "get_key", [seq[i:i + 1] for i in range(len(seq))], enc,
                                           self.modes[mode], full)
        return self.memo[key]

    # ---- independent reference ----------------------------------------------------------
    @staticmethod
    def decodable(seq, enc):
        try:
            seq.decode(enc)
            return True
        except UnicodeDecodeError:
            return False

    @staticmethod
    def utf8_need(lead):
        """RFC 3629: total length of the sequence started by a VALID lead byte, else None."""
        if 0xC2 <= lead <= 0xDF:
            return 2
        if 0xE0 <= lead <= 0xEF:
            return 3
        if 0xF0 <= lead <= 0xF4:
            return 4
        return None

    def grow_char(self, seq, enc):
        """True / False / None (unconstrained) - can seq still grow into one validly encoded character?"""
        if self.decodable(seq, enc):
            return False
        if codecs.lookup(enc).name == "utf-8":
            need = self.utf8_need(seq[0])
            if need is None:
                return None         # invalid / obsolete lead byte: outside the property's domain
            if not all(0x80 <= b <= 0xBF for b in seq[1:]):
                return None
            return len(seq) < need
        if codecs.lookup(enc).name == "ascii":
            return False
        return None

    def expected(self, seq, enc, full):
        """('name',) | ('none',) | ('raise',) | ('dontcare',) for a sequence all of whose proper prefixes asked for more."""
        if len(seq) > max(self.max_size, max(len(k) for k in self.keys), 4):
            return ("raise",)
        known = seq in self.keys or self.decodable(seq, enc)
        gs = seq in self.ref_prefixes_cached
        gc = self.grow_char(seq, enc)
        if full:
            if known:
                return ("name",)
            return ("dontcare",)
        if gs or gc is True:
            return ("none",)
        if gc is None and not known:
            return ("dontcare",)
        if gc is None and known and not self.decodable(seq, enc):
            # 8-bit Meta key whose byte is an invalid/obsolete UTF-8 lead: by design recognised only at the end of a read
            return ("dontcare",)
        if known:
            return ("name",)
        return ("raise",)

    @property
    def ref_prefixes_cached(self):
        if not hasattr(self, "_rp"):
            self._rp = self.ref_prefixes()
        return self._rp

    def expected_name(self, seq, enc, mode):
        if mode == "BYTES":
            return seq
        if mode == "CURTSIES":
            if seq in self.curtsies:
                return self.curtsies[seq]
            return seq.decode(enc) if self.decodable(seq, enc) else None
        if seq in self.curses:
            return self.curses[seq]
        if self.decodable(seq, enc):
            return seq.decode(enc)
        if len(seq) == 1:
            return "x%02X" % seq[0]
        return None     # multi-byte undecodable without a curses name: unnameable

    # ---- the table-derived test set -------------------------------------------------------
    def sequences(self, thorough=False):
        S = set()
        base = set(self.keys) | set(self.ref_prefixes_cached)
        S |= base
        tails = [b"A", b"\x1b", b"~", b"\x80", b"\xc3", b"0", b";", b"[", b"O"]
        if thorough:
            tails = [bytes([b]) for b in range(256)]
        for k in base:
            for t in tails:
                if len(k) + 1 <= self.max_size + 1:
                    S.add(k + t)
        for b in range(256):
            S.add(bytes([b]))
        # UTF-8: every lead byte with representative continuations, truncated and complete
        conts = [0x80, 0xBF, 0x9F, 0xA0, 0x8F, 0x90]
        bad = [0x7F, 0xC0, 0x41]
        for lead in range(0xC0, 0x100):
            for c1 in conts + bad:
                S.add(bytes([lead, c1]))
                if lead >= 0xE0:
                    for c2 in (0x80, 0xBF, 0x41):
                        S.add(bytes([lead, c1, c2]))
                        if lead >= 0xF0:
                            for c3 in (0x80, 0xBF, 0x41):
                                S.add(bytes([lead, c1, c2, c3]))
        for ch in ("é", "€", "日", "\U0001F600", "\U0010FFFF", "ࠀ", "￿", "\U00010000", "ß", "\x7f", "߿"):
            e = ch.encode("utf8")
            for i in range(1, len(e) + 1):
                S.add(e[:i])
            S.add(e + b"a")
        return sorted(S, key=lambda s: (len(s), s))

    def reachable(self, seq, enc):
        """Is seq reachable under the incremental protocol: every proper prefix would (by the reference) ask for more?"""
        for i in range(1, len(seq)):
            e = self.expected(seq[:i], enc, False)
            if e[0] not in ("none", "dontcare"):
                return False
        return True
