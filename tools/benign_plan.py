#!/usr/bin/env python3
"""Which checks to run on which behaviour-preserving refactoring, when the full cross product (every check on every refactoring,
tools/benign_matrix.sh) is too expensive.  A check is only run on a refactoring that touches a module the check reads; of the
fifteen checks that read formatstring.py a refactoring of that file gets its own check plus SAMPLE others, rotated so that every
check is exercised evenly.  Prints one line per refactoring: <id> <check> <check> ...   (SAMPLE=all gives the whole sound set.)"""
import os
import re
import sys

HERE = os.path.join(os.path.dirname(os.path.abspath(__file__)), "..", "selftest", "benign")
INPUT = ["C03", "C08", "C12", "C20"]
WINDOW = ["C02", "C07", "C12", "C18"]
ARRAY = ["C04", "C02", "C07", "C12"]
FMT = ["C01", "C02", "C04", "C05", "C06", "C07", "C09", "C10", "C11", "C12", "C13", "C14", "C15", "C16", "C17", "C18", "C19"]
READS = {"events.py": INPUT, "input.py": INPUT, "curtsieskeys.py": INPUT, "configfile_keynames.py": INPUT, "termhelpers.py": INPUT + ["C18"],
         "window.py": WINDOW, "formatstringarray.py": ARRAY, "formatstring.py": FMT, "escseqparse.py": FMT, "termformatconstants.py": FMT,
         "fmtfuncs.py": FMT}


def main():
    sample = os.environ.get("SAMPLE", "6")
    ids = sorted(d for d in os.listdir(HERE) if re.fullmatch(r"C\d+-[A-Z]", d))
    for k, rid in enumerate(ids):
        files = set(re.findall(r"^\+\+\+ b/curtsies/(\S+)", open(os.path.join(HERE, rid, "patch.diff")).read(), re.M))
        checks = []
        for f in sorted(files):
            for c in READS.get(f, FMT + INPUT):
                if c not in checks:
                    checks.append(c)
        own = rid.split("-")[0]
        rest = sorted(c for c in checks if c != own)
        if sample != "all" and len(rest) > int(sample):
            n = int(sample)
            start = (k * n + int(os.environ.get("OFFSET", "0"))) % len(rest)      # OFFSET: another rotation (other pairs)
            rest = [(rest + rest)[start + i] for i in range(n)]
        print(rid, *([] if os.environ.get("NO_OWN") else [own]), *sorted(rest))      # NO_OWN: a second rotation need not repeat the own check


if __name__ == "__main__":
    main()
