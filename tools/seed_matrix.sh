#!/bin/bash
# Runs every claimed check (quick tier) on every seeded change, 14 jobs in parallel, each on its own scratch copy of /repo/curtsies
# and with its own copy of /verif's checker writing evidence into a scratch dir; prints a matrix and writes seeded/MATRIX.md.
set -u
export VERIF_NPROC=${VERIF_NPROC:-2}   # the matrix already runs 14 jobs side by side
cd /verif
IDS=$(/venv/bin/python -c "import json;print(' '.join(c['property_id'] for c in json.load(open('MANIFEST.json'))['checks']))")
OUT=$(mktemp -d /tmp/seedmatrix.XXXXXX)
run_one() {
  seed=$1; out=$2; shift 2
  T=$(mktemp -d /tmp/seedrun.XXXXXX)
  cp -r /repo/curtsies "$T/curtsies"
  if ! ( cd "$T" && patch -p1 -s --no-backup-if-mismatch < /verif/seeded/$seed/patch.diff ) >/dev/null 2>&1; then echo "$seed PATCHFAIL" > "$out/$seed"; rm -rf "$T"; return; fi
  V=$(mktemp -d /tmp/seedverif.XXXXXX)
  cp -r /verif/sa /verif/selftest /verif/known_findings.json "$V/" ; mkdir -p "$V/evidence"
  line="$seed"
  own=${seed%%-*}
  ids="$@"
  # OWN_ONLY=1: only the check of the property the change was written against (fast); default: every claimed check
  [ -n "${OWN_ONLY:-}" ] && ids="$own"
  for id in $ids; do
    ( cd "$V" && /venv/bin/python -B -m sa.cli $id --repo "$T" > "$V/out.$id" 2>&1 ); rc=$?
    rule=$(grep -o 'rule=[A-Za-z0-9_-]*' "$V/out.$id" | head -1 | cut -d= -f2)
    line="$line $id:$rc:${rule:--}"
  done
  echo "$line" > "$out/$seed"
  rm -rf "$T" "$V"
}
export -f run_one
ls seeded | grep -E "^C[0-9]+-[A-Z]$" | grep -E -e "${SEEDFILTER:-.}" | xargs -P 14 -I{} bash -c "run_one {} $OUT $IDS"
/venv/bin/python - "$OUT" <<'PY'
import sys, os, json
out = sys.argv[1]
rows = []
for fn in sorted(os.listdir(out)):
    parts = open(os.path.join(out, fn)).read().split()
    seed = parts[0]
    res = {}
    for p in parts[1:]:
        if ":" in p:
            i, rc, rule = p.split(":", 2)
            res[i] = (int(rc), rule)
    rows.append((seed, res))
lines = ["# Which check catches which independently seeded change", "",
         "Each seeded change (patch.diff + demo + meta.json in this directory) was written by a fresh sub-agent that saw only the",
         "property text; it passes the 77 baseline tests and breaks its property. `own` is the check of the property the change was",
         "written against; rc 1 = VIOLATION reported, 0 = silent, 2 = ANALYSIS-ERROR.", "",
         "| seed | own check | first rule that fires | other checks that also fire |", "|---|---|---|---|"]
miss = 0
retired = {}
for seed, res in rows:
    try:
        meta = json.load(open("/verif/seeded/%s/meta.json" % seed))
    except Exception:
        meta = {}
    if meta.get("neutralised_by_fix"):
        retired[seed] = "neutralised by repair %s (its own demonstration passes on HEAD + patch): silence is correct" % meta["neutralised_by_fix"]
    if meta.get("superseded_by_fix"):
        retired[seed] = "superseded by repair %s (the patch no longer applies to HEAD)" % meta["superseded_by_fix"]
for seed, res in rows:
    own = seed.split("-")[0]
    if seed in retired:
        lines.append("| %s | - | - | %s |" % (seed, retired[seed]))
        continue
    if not res:
        lines.append("| %s | PATCH DOES NOT APPLY | - | - |" % seed)
        miss += 1
        continue
    o = res.get(own, (None, "-"))
    others = [i for i, (rc, _) in res.items() if rc == 1 and i != own]
    errs = [i for i, (rc, _) in res.items() if rc == 2]
    if o[0] != 1:
        miss += 1
    lines.append("| %s | %s rc=%s | %s | %s%s |" % (seed, own, o[0], o[1], ", ".join(others) or "-", (" (analysis-error: %s)" % ",".join(errs)) if errs else ""))
live = [r for r in rows if r[0] not in retired]
lines += ["", "%d seeded changes (%d retired, see above); of the %d live ones %d are caught by the check of their own property, %d by some check." %
          (len(rows), len(retired), len(live), len(live) - miss, sum(1 for _, r in live if any(rc == 1 for rc, _ in r.values())))]
open("/verif/seeded/MATRIX.md", "w").write("\n".join(lines) + "\n")
print("\n".join(lines[-1:]))
for seed, res in rows:
    own = seed.split("-")[0]
    if seed not in retired and res.get(own, (None,))[0] != 1:
        print("NOT CAUGHT BY OWN:", seed, res)
PY
rm -rf "$OUT"
