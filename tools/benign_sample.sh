#!/bin/bash
# Runs, for every kept behaviour-preserving refactoring, the checks tools/benign_plan.py selects for it (own check + the checks that
# read the modules the refactoring touches, sampled by rotation when there are many; SAMPLE=all for the whole sound set).
# Any rc != 0 is a false alarm (1) or an analysis error (2).  Writes selftest/benign/RESULTS.md.
set -u
export VERIF_NPROC=${VERIF_NPROC:-2}
cd /verif
OUT=$(mktemp -d /tmp/benmatrix.XXXXXX)
run_one() {
  b=$1; out=$2; shift 2
  T=$(mktemp -d /tmp/benrun.XXXXXX); cp -r /repo/curtsies "$T/curtsies"
  if ! ( cd "$T" && patch -p1 -s --no-backup-if-mismatch < /verif/selftest/benign/$b/patch.diff ) >/dev/null 2>&1; then echo "$b PATCHFAIL" > "$out/$b"; rm -rf "$T"; return; fi
  V=$(mktemp -d /tmp/benverif.XXXXXX); cp -r /verif/sa /verif/selftest /verif/known_findings.json "$V/"; mkdir -p "$V/evidence"
  line="$b ($*)"
  for id in "$@"; do
    ( cd "$V" && /venv/bin/python -B -m sa.cli $id --repo "$T" > "$V/out.$id" 2>&1 ); rc=$?
    if [ $rc -ne 0 ]; then
      msg=$(grep -E 'rule=|ANALYSIS-ERROR' "$V/out.$id" | head -2 | cut -c1-330 | tr '\n' '|')
      line="$line
    $id rc=$rc: $msg"
    fi
  done
  echo "$line" > "$out/$b"
  rm -rf "$T" "$V"
}
export -f run_one
/venv/bin/python tools/benign_plan.py > "$OUT.plan"
while read -r b ids; do echo "$b $OUT $ids"; done < "$OUT.plan" | xargs -P 14 -L 1 bash -c 'run_one "$@"' _
cat "$OUT"/* ; n=$(ls "$OUT" | wc -l); runs=$(awk '{n+=NF-1} END {print n}' "$OUT.plan"); bad=$(grep -l 'rc=\|PATCHFAIL' "$OUT"/* | wc -l)
echo "== $n refactorings, $runs check runs, $bad refactorings with at least one non-zero check"
{
  echo "# Checks on behaviour-preserving refactorings"
  echo
  echo "Each refactoring under this directory (patch.diff + equiv.py with an equivalence digest + notes.md) was written by a fresh"
  echo "sub-agent that saw only the property text, keeps the 77 baseline tests passing and prints the same digest with and without"
  echo "the change. Any non-zero exit of a check on such a tree is a false alarm (rc=1) or an analysis error (rc=2)."
  echo
  echo "Last run (tools/benign_sample.sh, SAMPLE=${SAMPLE:-6}${OFFSET:+, OFFSET=$OFFSET}): $n refactorings, $runs check runs - each refactoring against the check of its own"
  echo "property and against checks that read the modules it touches (sampled by rotation, see tools/benign_plan.py);"
  echo "$bad refactorings with at least one non-zero check.  The full cross product is tools/benign_matrix.sh (its history is in DESIGN.md section 5)."
  echo
  echo '```'
  grep -h -A3 'rc=\|PATCHFAIL' "$OUT"/* | cut -c1-400
  echo '```'
  echo
  echo "Plan of the run (refactoring: checks):"
  echo
  echo '```'
  cat "$OUT.plan"
  echo '```'
} > "/verif/selftest/benign/RESULTS${OFFSET:+-offset$OFFSET}.md"
rm -rf "$OUT" "$OUT.plan"
