#!/bin/bash
# Partial variant of benign_matrix.sh: BENFILTER=<regex over refactoring ids> CHECKS="C01 C05 ..." (default: all claimed); prints the results, never touches RESULTS.md
set -u
export VERIF_NPROC=${VERIF_NPROC:-2}   # the matrix already runs 14 jobs side by side
cd /verif
IDS=${CHECKS:-$(/venv/bin/python -c "import json;print(' '.join(c['property_id'] for c in json.load(open('MANIFEST.json'))['checks']))")}
OUT=$(mktemp -d /tmp/benmatrix.XXXXXX)
run_one() {
  b=$1; out=$2; shift 2
  T=$(mktemp -d /tmp/benrun.XXXXXX); cp -r /repo/curtsies "$T/curtsies"
  if ! ( cd "$T" && patch -p1 -s --no-backup-if-mismatch < /verif/selftest/benign/$b/patch.diff ) >/dev/null 2>&1; then echo "$b PATCHFAIL" > "$out/$b"; rm -rf "$T"; return; fi
  V=$(mktemp -d /tmp/benverif.XXXXXX); cp -r /verif/sa /verif/selftest /verif/known_findings.json "$V/"; mkdir -p "$V/evidence"
  line="$b"
  for id in "$@"; do
    ( cd "$V" && /venv/bin/python -B -m sa.cli $id --repo "$T" > "$V/out.$id" 2>&1 ); rc=$?
    if [ $rc -ne 0 ]; then
      msg=$(grep -E 'rule=|ANALYSIS-ERROR' "$V/out.$id" | head -2 | cut -c1-330 | tr '\n' '|')
      line="$line
    $id rc=$rc: $msg"
    fi
  done
  echo "$line" > "$out/$b"
  rm -rf "$T" "$V"
}
export -f run_one
# BENFILTER=<regex>: only the refactorings whose id matches (partial run; RESULTS.md is then left alone)
ls selftest/benign | grep -E '^C[0-9]+-[A-Z]$' | grep -E -e "${BENFILTER:-.}" | xargs -P 14 -I{} bash -c "run_one {} $OUT $IDS"
cat "$OUT"/* ; n=$(ls "$OUT" | wc -l); bad=$(grep -l 'rc=' "$OUT"/* | wc -l); echo "== $n refactorings, $bad with at least one non-zero check"
{
  echo "# Every claimed check on every behaviour-preserving refactoring"
  echo
  echo "Each refactoring under this directory (patch.diff + equiv.py with an equivalence digest + notes.md) was written by a fresh"
  echo "sub-agent that saw only the property text, keeps the 77 baseline tests passing and prints the same digest with and without"
  echo "the change. Any non-zero exit of a check on such a tree is a false alarm (rc=1) or an analysis error (rc=2)."
  echo
  echo "Last run: $n refactorings x $(echo $IDS | wc -w) checks; $bad refactorings with at least one non-zero check."
  echo
  echo '```'
  grep -h -A3 'rc=' "$OUT"/* | cut -c1-400
  for f in "$OUT"/*; do grep -q 'rc=' "$f" && head -1 "$f"; done
  echo '```'
} > /dev/null
rm -rf "$OUT"
