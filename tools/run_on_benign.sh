#!/bin/bash
# usage: tools/run_on_benign.sh <benign-id> [check ids...]
set -u
B=$1; shift
T=$(mktemp -d /tmp/benrun.XXXXXX); trap 'rm -rf "$T"' EXIT
cp -r /repo/curtsies "$T/curtsies"
( cd "$T" && patch -p1 -s --no-backup-if-mismatch < /verif/selftest/benign/$B/patch.diff ) || { echo patch failed; exit 3; }
IDS="$@"; [ -n "$IDS" ] || IDS=$(/venv/bin/python -c "import json;print(' '.join(c['property_id'] for c in json.load(open('/verif/MANIFEST.json'))['checks']))")
cd /verif
for id in $IDS; do out=$(./check $id --repo "$T" 2>&1); rc=$?; echo "[$B $id rc=$rc] $(echo "$out" | grep -E 'rule=|ANALYSIS-ERROR' | head -${LINES_SHOWN:-2} | cut -c1-360)"; done
git -C /verif checkout -q -- evidence 2>/dev/null
