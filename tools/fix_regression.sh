#!/bin/bash
# For every "fix:" commit in /repo: undo that one repair on a scratch copy of the current tree and run the check of the
# property it was made for.  The check must report a VIOLATION again (a fixed entry suppresses nothing).
set -u
cd /verif
declare -A PROP=( [6bc35f5]=C12 [37221c6]=C13 [13822e6]=C08 [973328c]="C05 C17" [20744aa]=C14 [281b790]=C02 [f93d170]=C04 [51c6827]=C12 [83a85ce]=C15 [c2f73c9]=C14 [ec539c0]=C06 [22366e4]=C09 [246a451]=C16 [395ba48]=C10 )
fail=0
for h in $(git -C /repo log --format=%h --grep '^fix:' | tac); do
  T=$(mktemp -d /tmp/fixreg.XXXXXX)
  cp -r /repo/curtsies "$T/curtsies"
  if ! git -C /repo show $h -- curtsies | ( cd "$T" && patch -R -p1 -s --no-backup-if-mismatch ) >/dev/null 2>&1; then
    echo "$h: cannot be undone on top of the later repairs (overlapping lines) - skipped"; rm -rf "$T"; continue
  fi
  for id in ${PROP[$h]:-}; do
    out=$(./check $id --repo "$T" 2>&1); rc=$?
    rule=$(echo "$out" | grep -o 'rule=[A-Za-z0-9_-]*' | head -1)
    echo "$h ($(git -C /repo log --format=%s -1 $h | cut -c1-60)) undone -> $id rc=$rc $rule"
    [ $rc -eq 1 ] || fail=1
  done
  rm -rf "$T"
done
git -C /verif checkout -q -- evidence 2>/dev/null
exit $fail
