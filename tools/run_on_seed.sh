#!/bin/bash
# usage: tools/run_on_seed.sh <patch.diff | seeded-id> [check ids...]   (default: all claimed checks in MANIFEST)
# Applies a patch to a scratch copy of /repo/curtsies (outside /repo and /verif) and runs the checks with --repo <copy>.
set -u
S=$1; shift
[ -f "$S" ] || S=/verif/seeded/$S/patch.diff
T=$(mktemp -d /tmp/seedrun.XXXXXX)
trap 'rm -rf "$T"' EXIT
cp -r /repo/curtsies "$T/curtsies"
( cd "$T" && patch -p1 -s --no-backup-if-mismatch < "$S" ) || { echo "patch failed"; exit 3; }
IDS="$@"
[ -n "$IDS" ] || IDS=$(/venv/bin/python -c "import json;print(' '.join(c['property_id'] for c in json.load(open('/verif/MANIFEST.json'))['checks']))")
cd /verif
for id in $IDS; do
  out=$(./check $id --repo "$T" ${TIER:+--tier $TIER} 2>&1); rc=$?
  echo "[$id rc=$rc] $(echo "$out" | grep -E 'rule=|ANALYSIS-ERROR' | head -${LINES_SHOWN:-3} | cut -c1-400)"
done
# evidence files were rewritten by the scratch run: restore them from git
git -C /verif checkout -q -- evidence 2>/dev/null
