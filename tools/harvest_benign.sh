#!/bin/bash
# usage: tools/harvest_benign.sh <PROP> <LETTER> [srcdir]
# Verifies a behaviour-preserving refactoring (patch.diff + equiv.py + notes.md): patch applies to /repo HEAD, the 77 baseline
# tests pass with it, equiv.py prints the same digest with and without it.  Kept under /verif/selftest/benign/<PROP>-<L>/.
set -u
P=$1; L=$2
SRC=${3:-/tmp/wt2/${P}b/_out/$L}
ID="$P-$L"
WT=$(mktemp -d /tmp/benverify.XXXXXX); rmdir "$WT"
git -C /repo worktree add -q --detach "$WT" HEAD || exit 3
cleanup() { git -C /repo worktree remove --force "$WT" >/dev/null 2>&1; rm -rf "$WT"; }
trap cleanup EXIT
mkdir -p "$WT/_out/$L"
cp "$SRC"/*.py "$WT/_out/$L/" 2>/dev/null
cp "$(dirname "$SRC")"/*.py "$WT/_out/" 2>/dev/null
cd "$WT" || exit 3
d0=$(timeout 600 /venv/bin/python _out/$L/equiv.py 2>&1 | tail -1)
if ! git apply --3way "$SRC/patch.diff" >/tmp/ben_$ID.apply.log 2>&1; then echo "$ID: PATCH DOES NOT APPLY"; exit 1; fi
git diff HEAD -- curtsies > /tmp/ben_$ID.patch
tests=$(timeout 900 /venv/bin/python -m pytest -q -p no:cacheprovider --timeout=900 2>&1 | tail -1)
d1=$(timeout 600 /venv/bin/python _out/$L/equiv.py 2>&1 | tail -1)
echo "$ID: digest pristine=[$d0] patched=[$d1] tests: $tests"
if [ "$d0" = "$d1" ] && [ -n "$d0" ] && echo "$tests" | grep -q "^77 passed"; then
  D=/verif/selftest/benign/$ID
  mkdir -p "$D"
  cp /tmp/ben_$ID.patch "$D/patch.diff"; cp "$SRC/equiv.py" "$D/equiv.py"; [ -f "$SRC/notes.md" ] && cp "$SRC/notes.md" "$D/notes.md"
  for f in "$(dirname "$SRC")"/*.py; do [ -f "$f" ] && cp "$f" "$D/"; done
  echo "$ID: KEPT"
else
  echo "$ID: REJECTED"
fi
