#!/usr/bin/env python3
"""Regenerates /verif/MANIFEST.json from the table below (keeps it valid at all times)."""
import json
import os

HERE = os.path.dirname(os.path.dirname(os.path.abspath(__file__)))

PARTIAL = (" The named clauses are necessary conditions of the property and are decided exactly from the source on "
           "every run; the rest of the property is NOT decided by this check.")

CHECKS = {
    "C12": dict(
        technique="typestate / save-change-restore pairing over every context manager (ast + own CFG, path enumeration, who-may-call)",
        text="Static typestate analysis, package wide: every state change found in any __enter__ (tty attributes, file "
             "status flags, SIGINT handler, wake-up fd, pipe descriptors, cursor, delegated contexts) must be saved before "
             "it is made and restored with the saved value on every feasible path of the matching __exit__; raw "
             "state-changing primitives may be called nowhere else; context managers are only used through `with` or "
             "paired delegation. Decides the restore discipline for every exit path (the `with` statement supplies the "
             "exception clause); does not decide what the OS calls do.",
        note="trusted: Python `with` semantics; termios/tty/fcntl/signal/os/blessed behave as named; ast of CPython 3.12; "
             "exceptions raised inside __enter__/__exit__ themselves are outside the property and not modelled",
        design="DESIGN.md section 3 C12"),
}

CHECKS["C13"] = dict(
    technique="whole-package effect analysis: who-may-write tracked fields, may-alias analysis of run lists and attribute dicts, memo-accessor shape",
    text="Effect analysis over every function of the package: stores to FmtStr/Chunk fields only in __init__ or in the "
         "slot's own memo accessor; no in-place mutation of any list that may alias a .chunks run list or of any dict that "
         "may alias a run's attributes; each memo accessor stores the complete value once, computed from self.chunks only, "
         "and returns straight after; FrozenAttributes rejects every dict mutator; FmtStr.__setitem__ raises. These are "
         "exactly the ways a pre-existing value or a memoised view can change, so for this property the structural "
         "clauses cover the statement; what is trusted is Python's copying semantics.",
    note="trusted: *args/list()/slicing/+ build new containers; receivers other than self are matched by attribute name "
         "(over-approximation); that each accessor computes the RIGHT value is not part of C13",
    design="DESIGN.md section 3 C13", partial=False)

CHECKS["C08"] = dict(
    technique="queue-discipline who-may-mutate table, def-use of popped values, CFG dominance of the blocking wait by queue checks, protocol-order rules",
    text="Static rules over Input: a frozen tail-in/head-out table for the six queues checked against every mutation site "
         "of the package; every popped value flows to a return or to the decoder's buffer; the scheduled queue is sorted on "
         "the time component only and every head-pop is preceded by that sort and guarded by a due test; the blocking wait "
         "is dominated (CFG) by the empty branches of all queues and by a failed find_key(); wake-up protocol order "
         "(append before os.write, readers registered, select watches stdin + wake-up fd + readers); paste loop refill "
         "threshold against the folded MAX_KEYPRESS_SIZE; the wait reports a timeout only when select returned nothing.",
    note="trusted: list.sort stability, select/os.read/os.write; not decided: real interleavings, thread races, float "
         "remaining-time arithmetic",
    design="DESIGN.md section 3 C08")

CHECKS["C01"] = dict(
    technique="template extraction + abstract interpretation (constant-propagation domain, symbolic text) of the SGR writer over the whole attribute space against a reference SGR machine",
    text="The SGR writer is a closed template program over compile-time tables: wrapper templates and seq() are folded "
         "with symbolic text, Chunk.color_str is abstractly interpreted for every attribute set of the quantifier "
         "(5184+ sets quick, all 59049 thorough) and each resulting token stream is judged by an independent ECMA-48 SGR "
         "machine (state at the text = the set's truthy attributes, default state at the end, only SGR tokens); runs "
         "compose because each starts and ends in the default state; FmtStr.__str__/Chunk.__str__ join every run in order "
         "with the empty separator; the memoised terminal string cannot go stale (C13's rules for _unicode/chunks). For "
         "ESC-free text this decides the whole statement at the level of the extracted writer model.",
    note="trusted: ECMA-48 SGR subset as encoded in sa/sgr.py; the constant folder / decision-list evaluator of sa/ "
         "(fail-closed outside its pure subset); str concatenation semantics",
    design="DESIGN.md section 3 C01", partial=False)

CHECKS["C05"] = dict(
    technique="extracted SGR reader table + from_str fold transition function (abstract interpretation, constant-propagation domain) composed with the writer model over the whole attribute space; regular-language inclusion on the tokenizer patterns",
    text="token_type is abstractly interpreted for every code 0..107 and for parameter lists (singles, all pairs, a;b;a "
         "triples; thorough all triples) and compared with an independent ECMA-48 SGR machine; the token loop of from_str is "
         "extracted as a transition function (update tokens change exactly their keys, text emits one run with the non-None "
         "attributes via parse_args); for every attribute set writer->tokens->reader->fold returns one run with exactly "
         "the set's truthy attributes and a fully reset reader state, so runs compose; inverse tables agree; both tokenizer "
         "patterns are total (DOTALL), tile their input, and recognise (DFA language inclusion) every writer sequence and "
         "every ordinary numeric CSI as one token; CSI wins ties; parse() alternates text and updates in order.",
    note="trusted: ECMA-48 subset in sa/sgr.py, re.match semantics, the folder/evaluator of sa/ (fail-closed); the "
         "composition of the tokenizer regexes with the model is argued from their partition shape, not executed",
    design="DESIGN.md section 3 C05")
CHECKS["C17"] = dict(
    technique="exception-escape analysis by abstract interpretation of token_type / from_str fold / parse_args over every token shape of both tokenizer patterns; regular-language inclusion for tokenizer and fallback patterns; structural try/except rules",
    text="Every token shape either tokenizer pattern can produce (all final bytes of both command classes, numeric/empty/"
         "non-numeric parameter strings, only the groups the producing pattern defines) is pushed through token_type: the "
         "outcome must be updates, None or ValueError; every update the reader can emit is accepted by the from_str fold and "
         "parse_args (which run outside the try); parse() lets only ValueError out, from_str catches it and falls back to "
         "remove_ansi(s); the tokenizer neither raises nor applies int() to non-digits; the fallback is re.sub(p,'',s) with "
         "nothing in the count slot, its language lies within ECMA-48 CSI and contains every numeric CSI; without ESC[ the "
         "input comes back as FmtStr(Chunk(s)).",
    note="trusted: re/int/str primitives; only the implicit exceptions modelled by the evaluator (dict lookup, int(), "
         "calls with wrong arity) are considered",
    design="DESIGN.md section 3 C17")

CHECKS["C14"] = dict(
    technique="object-aware abstract interpretation (constant-propagation domain, symbolic text) of fmtstr/parse_args/fmtfuncs/copy_with_new_atts/new_with_atts_removed/copy_with_new_str/shared_atts over the finite spelling and attribute domains; guard-key/lookup-key belief rule",
    text="The formatting API is table driven, so it is evaluated on its whole finite spelling domain from the source: every "
         "fmtfuncs helper gives the attribute its name says; all spellings of every colour/style value agree; applying any "
         "attribute (set) to 1-2 run values over a small attribute domain overrides exactly the named attributes and keeps "
         "text and runs; removal over all 1-3 element name sets deletes exactly those; copy_with_new_str keeps a uniformly "
         "formatted string's formatting (empty unformatted runs around included); a 24-entry catalogue of unknown, "
         "contradictory and mis-typed specifications raises ValueError (mixed case: ValueError or acceptance); guard key == "
         "lookup key for every guarded table lookup of the package; shared_atts over 1-3 run layouts only reports values every "
         "non-empty run has. Layout size is bounded (<= 3 runs); the per-run maps are checked to have no filter.",
    note="trusted: the folder/evaluator of sa/ (fail-closed outside its pure subset), dict/str primitives; not decided: "
         "value validation the code does not attempt (bold='x')",
    design="DESIGN.md section 3 C14")
CHECKS["C19"] = dict(
    technique="object-aware abstract interpretation of __eq__/__hash__/__repr__ and the code they reach on a pool of model values; repr strings re-evaluated through the interpreted fmtfuncs helpers",
    text="For every ordered pair of a 14-value pool (same text/different formatting, same display/different run boundaries, "
         "empty runs, False attributes, no runs) f == g equals str(f) == str(g); for every pool value and plain strings "
         "(own terminal string, bare text, other values' strings) f == s and the reflected s == f equal str(f) == s; hash(f) "
         "is the hash of exactly the string equality compares (hash treated symbolically); foreign types give "
         "NotImplemented; repr(f) over all 3^6 style states with colours (plus colour sweeps and multi-run values) parses "
         "as an expression over fmtfuncs names, literals, calls and + and, evaluated through the same interpreted helper "
         "code, has the same characters and effective formatting.",
    note="trusted: Python's reflected-equality protocol, repr(str) yielding a literal, the evaluator of sa/; pools are "
         "finite samples of run layouts",
    design="DESIGN.md section 3 C19")

CHECKS["C03"] = dict(
    technique="constant folding of the key tables + object-aware abstract interpretation of get_key / could_be_unfinished_* on a table-derived finite sequence set against an independent reference segmentation; structural rules for find_key",
    text="Prefix set == all proper prefixes of ESC-initial keys (independently recomputed); table shape; MAX_KEYPRESS_SIZE "
         "adequate; could_be_unfinished_utf8 for every lead byte x length against RFC 3629; could_be_unfinished_char and "
         "get_key interpreted on every table key, every prefix, each followed by representative bytes (thorough: every byte), "
         "every single byte and UTF-8 lead/continuation classes, for utf8/ascii/latin-1 and both `full` values, restricted "
         "to sequences reachable under the feed-one-byte protocol, against a reference segmentation written from the "
         "property (ask for more exactly while the bytes can grow into a table sequence or a valid character; name when "
         "recognised; fail otherwise); find_key's byte-buffer discipline. The sequence set is finite and table-derived, not "
         "the full decision tree (utf-8 continuation bytes are sampled by class).",
    note="trusted: Python codecs, RFC 3629 lengths, the evaluator of sa/; table NAMES have no independent oracle",
    design="DESIGN.md section 3 C03")
CHECKS["C20"] = dict(
    technique="constant folding of the tables + object-aware abstract interpretation of get_key under all three naming modes and of KeyMap.__getitem__ over the whole config-name domain",
    text="curses keys are a subset of curtsies keys; on the table-derived sequence set of C03 (3 encodings x 2 `full` values) the "
         "three naming modes agree on the kind of answer for every reachable case, i.e. cut the stream at the same places; "
         "_key_name is total on every table key; bytes naming returns the keypress bytes, the others table name / character "
         "/ xHH; KeyMap.__getitem__ interpreted for C-a..z, M-<every printable>, F1..F12, SPECIALS and '' produces only names "
         "that occur as values of the folded CURTSIES_NAMES, () for the unbound key, KeyError for a catalogue of invalid names.",
    note="trusted: Python codecs; the evaluator of sa/. Two genuine dead names (C-i, 'M- ') are recorded as known findings.",
    design="DESIGN.md section 3 C20")

CHECKS["C02"] = dict(
    technique="terminal-effect token extraction + per-path protocol rules over the render loops (path enumeration with feasibility pruning), argument->parameter->store dataflow for the size record, who-may-write the cache",
    text="Every write of FullscreenWindow.render_to_terminal is classified by the blessed capability it names and the loop "
         "bodies are checked path by path: draw = move,text,clear_eol exactly when shorter than the width; every path "
         "records the row; skip only under equality with the cached content of the same row; rows below the array blanked "
         "unless a non-empty cache knows nothing about them; cache dropped when height OR width changed and each dimension "
         "recorded under its own name; per-call record committed after the loops and written by nobody else; cursor moved "
         "last; rows iterated and text written are bounded by the terminal size (never scrolls); the equality used is "
         "FmtStr.__eq__ on terminal strings (C19's H1 re-run).",
    note="trusted: blessed capabilities and terminal semantics behave as named (pending-wrap at the last column); not "
         "decided: what the terminal shows, wide characters, exceptions in the middle of a render",
    design="DESIGN.md section 3 C02")
CHECKS["C07"] = dict(
    technique="terminal-effect token extraction + per-path protocol rules, scroll accounting per path, affine-form check of the recorded cursor row, who-may-write top_usable_row",
    text="The non-scrolling part obeys C02's draw/record/skip/blank/invalidate/commit rules on rows range(top_usable_row, "
         "height); every path of the surplus-line loop has one scroll, exactly one of top_usable_row -= 1 (guarded by a test "
         "of that same attribute > 0) / offscreen_scrolls += 1, a re-key of the record by -1 and a draw on the bottom row; "
         "the function returns the off-screen count; every MOVE addresses a window row, the bottom row or the recorded cursor "
         "row; the recorded cursor row is the affine form cursor_pos[0] - offscreen + top_usable_row (clamp at 0 only) and "
         "the last effect moves there; __exit__ emits only downward-clearing effects; scroll_down is a line feed at the "
         "bottom inside a cursor save/restore.",
    note="trusted: blessed/terminal scrolling semantics; not decided: scrollback content, top_usable_row as a number across "
         "SIGWINCH",
    design="DESIGN.md section 3 C07")
CHECKS["C18"] = dict(
    technique="regular-language comparison (DFA) of the report pattern against the CPR grammar, def-use of match groups to the result, read-size and loop-shape rules, affine effect summaries per loop path, Optional-int truthiness lint",
    text="The cursor report pattern (located through re.search or a module-level re.compile) accepts, as a match of "
         "everything read so far, exactly <anything incl. newlines><ESC[ or 0x9b>digits;digitsR (DFA inclusion both ways), "
         "so all preceding bytes land in `extra`; the result is (int(row)-1, int(column)-1); only read(1) is used and the "
         "match is attempted after every read; extra goes encoded to the callback or raises ValueError; OSError retries; in "
         "the vertical-diff code every adjustment-loop path conserves movement (delta top_usable_row + delta cursor_dy == 0, "
         "sign matching the guard), the first-call test is `is None`, the observed row is recorded on every path, the outer "
         "loop ADDS every query's remainder and follows the busy/repeat flag protocol; Optional-int attributes are never "
         "tested by truthiness.",
    note="trusted: re semantics, CPR format; not decided: clamping bounds of the loops, blessed path, encodings",
    design="DESIGN.md section 3 C18")

CHECKS["C04"] = dict(
    technique="structural commit/validation rules on FSArray.__setitem__ (single whole-list commit as last statement, dominance of validation), affine-form checks of the padding amounts, who-may-write rows; normalize_slice abstractly interpreted on row indices only",
    text="All-or-nothing, never-wider and grows-downward clauses: the region path changes existing rows only by one whole-list "
         "assignment that is the last statement (every rejecting call runs first), keeps rows outside the region in place, is "
         "preceded by a row-count check that always raises, builds every row with setslice_with_length(..., array width); "
         "setslice_with_length returns only the spliced row under a dominating len(result) > length check, pads by the affine "
         "amounts startindex-len(row) / endindex-startindex-len(value) and validates the value's width against the region "
         "when the row continues past it; the row index is normalised against an unbounded length (normalize_slice "
         "interpreted on indices at and beyond the height) and the array grows by max(0, stop-len(rows)) blank rows; who may "
         "write rows/num_columns; region read shape.",
    note="not decided: which cells show what (the slice arithmetic of splice/normalize_slice) - the compositing itself",
    design="DESIGN.md section 3 C04")
CHECKS["C15"] = dict(
    technique="syntax-tree rules for the __getattr__ delegation path cross-checked by abstract interpretation of a curated method list; positional-separator rule for join; affine form of the pad count; scan-form rule for split",
    text="NARROW: the generic delegation path calls the same-named str method on the plain text with the caller's arguments, "
         "passes non-text answers through and re-wraps text answers with shared_atts only (tree rules + 64 interpreted "
         "samples against CPython str); join inserts the separator by position, never depending on accumulated content; "
         "ljust/rjust pad by width - len(text) characters on the right side and delegate the fillchar form to str; split "
         "scans non-overlapping matches (escaped literal through finditer, or a find loop advancing by len(sep)) and "
         "returns the pieces between matches in order; splitlines splits on newline.",
    note="NOT decided: value-level agreement of split/splitlines/join/ljust/rjust with CPython str on arbitrary arguments "
         "(index arithmetic over runtime strings); keepends",
    design="DESIGN.md section 3 C15")

NOT_APPLICABLE = [
    ("C06", "slicing/normalisation is integer arithmetic over run layouts; no structural clause is a necessary condition visible in the code shape"),
    ("C09", "five-way overlap arithmetic across runs; a sound static decision needs inductive integer invariants (solver family)"),
    ("C10", "column arithmetic over character widths that come from cwcwidth, a compiled extension outside the analysed source"),
    ("C11", "hand-written width state machine whose fence-posts are integer relations over external widths"),
    ("C16", "first-fit packing and word/gap pairing are index arithmetic; nothing structural is necessary and robust"),
]

ALL = ["C%02d" % i for i in range(1, 21)]


def main():
    checks = []
    for pid in sorted(CHECKS):
        c = CHECKS[pid]
        checks.append({
            "property_id": pid,
            "quick_cmd": "./check %s --tier quick" % pid,
            "thorough_cmd": "./check %s --tier thorough" % pid,
            "evidence_file": "evidence/%s.json" % pid,
            "replay_cmd_template": "./check %s --replay {path}" % pid,
            "engine": "sa",
            "level_claimed": {"category": "other", "text": c["text"] + (PARTIAL if c.get("partial", True) else ""),
                              "design_ref": c["design"]},
            "level_note": c["note"],
            "technique": "static analysis: " + c["technique"],
        })
    na = [{"property_id": p, "reason": r} for p, r in NOT_APPLICABLE]
    claimed = set(CHECKS) | {p for p, _ in NOT_APPLICABLE}
    for p in ALL:
        if p not in claimed:
            na.append({"property_id": p, "reason": "check under construction in this session (planned as claimed in DESIGN.md); not claimed until its checker is committed"})
    man = {
        "version": 1,
        "setup_cmd": "/venv/bin/python -B -m compileall -q sa >/dev/null 2>&1; /venv/bin/python -B -c \"import sys; sys.path.insert(0,'.'); import sa.cli\"",
        "hooks": {
            "guard": "CURTSIES_VERIF",
            "enable": "none: static analysis reads /repo/curtsies/*.py from disk; no source line of curtsies reads the guard and no hook was added",
            "baseline_off_cmd": "cd /repo && /venv/bin/python -m pytest -ra -q -p no:cacheprovider --timeout=900 --continue-on-collection-errors",
            "source_commits": [],
            "add_only": True,
        },
        "engines": [
            {"name": "sa", "path": "sa/", "serves_properties": sorted(CHECKS),
             "kind_free_text": "repository-specific static analysers on the stdlib ast module: source model with MRO and import "
                               "resolution, constant folder for the package's tables, statement-level CFG with dominators and "
                               "path enumeration, string/decision-table template extraction, regex syntax-tree queries, "
                               "reference SGR machine; never imports or runs curtsies"},
        ],
        "checks": checks,
        "not_applicable": sorted(na, key=lambda d: d["property_id"]),
        "notes": "All checks are static (exit 0 held / 1 VIOLATION / 2 ANALYSIS-ERROR). known_findings.json lists genuine defects "
                 "recorded rather than repaired and the fix: commits made in /repo. selftest/ holds the mutant catalogue used to "
                 "test the checkers both ways; seeded/ holds independently written breaking changes and which check catches them.",
    }
    with open(os.path.join(HERE, "MANIFEST.json"), "w") as f:
        json.dump(man, f, indent=1)
        f.write("\n")


if __name__ == "__main__":
    main()
