#!/usr/bin/env python3
"""Regenerates /verif/MANIFEST.json from the table below (keeps it valid at all times)."""
import json
import os

HERE = os.path.dirname(os.path.dirname(os.path.abspath(__file__)))

PARTIAL = (" The named clauses are necessary conditions of the property and are decided exactly from the source on "
           "every run; the rest of the property is NOT decided by this check.")

BOUNDED = (" This is a BOUNDED claim: the package's source is evaluated by the checker's own abstract interpreter (never by "
           "CPython, never imported) on the finite catalogue named here and compared with an independent reference model; it "
           "holds on that catalogue and nothing beyond it is decided.")

CHECKS = {}

CHECKS["C13"] = dict(
    technique="whole-package effect analysis: who-may-write tracked fields, may-alias analysis of run lists and attribute dicts, memo-accessor discipline; abstract interpretation of a catalogue of straight-line programs over a value pool with re-observation of every earlier value",
    text="Effect analysis over every function of the package: stores to FmtStr/Chunk fields only in __init__ or in the "
         "slot's own memo accessor; no in-place mutation of any list that may alias a .chunks run list or of any dict that "
         "may alias a run's attributes; each memo accessor stores the complete value once, computed from the immutable fields of its class only, "
         "and returns straight after - never stores and then raises (the memo table is keyed by class and slot; a new slot a class "
         "initialises to None and fills in one method is held to the same discipline); FrozenAttributes rejects every dict mutator; FmtStr.__setitem__ raises. These are "
         "exactly the ways a pre-existing value or a memoised view can change, so for this property the structural "
         "clauses cover the statement; what is trusted is Python's copying semantics. In addition (bounded catalogue): about 750 "
         "straight-line programs over a pool of four values built from 28 public operations are interpreted, every earlier value "
         "re-observed (str, len, s, width, repr, per-character formatting) after every step, memoised views compared with those of "
         "a freshly built equal value, and item assignment / every dict mutator on a run's attributes must raise and change nothing.",
    note="trusted: *args/list()/slicing/+ build new containers; receivers other than self are matched by attribute name "
         "(over-approximation); that each accessor computes the RIGHT value is not part of C13",
    design="DESIGN.md section 3 C13", partial=False)

CHECKS["C08"] = dict(
    technique="queue-discipline who-may-mutate table, def-use of popped values, CFG dominance of the blocking wait by queue checks, protocol-order rules; abstract interpretation of Input's request loop against a reference OS model over a catalogue of arrival / trigger / request histories",
    text="Static rules over Input: a frozen tail-in/head-out table for the six queues checked against every mutation site "
         "of the package; every popped value flows to a return or to the decoder's buffer; the scheduled queue is sorted on "
         "the time component only and every head-pop is preceded by that sort and guarded by a due test; the blocking wait "
         "is dominated (CFG) by the empty branches of all queues and by a failed find_key(); wake-up protocol order "
         "(append before os.write, readers registered, select watches stdin + wake-up fd + readers); READ_SIZE >= MAX_KEYPRESS_SIZE; "
         "the wait reports a timeout only when select returned nothing. "
         "Interpreted parts: the key finder on byte buffers derived from the key tables (returns the first keypress of the "
         "reference segmentation, leaves exactly the rest, `full` means buffer exhausted), unget_bytes (appends in order), "
         "_nonblocking_read with os.read stubbed (every byte buffered once, in order; nothing on EOF / would-block), the "
         "descriptor set handed to select (stdin + wake-up fd + readers); and, as a BOUNDED catalogue, Input's whole request "
         "loop against a reference OS model (select readiness, pipes, clock, SIGINT handler and wake-up byte) over 26 scripted "
         "histories - arrivals of keys / sequences / bursts, unget_bytes, event / scheduled (equal times) / thread-safe triggers "
         "firing before and while a request is blocked, SIGINT between requests, timeouts 0 / small / None, paste thresholds "
         "default / None / 1 / 100: every byte and event returned exactly once and in order, scheduled events never early and in "
         "time order, no None (or endless block) while something is deliverable, None not before the timeout, a burst above "
         "the threshold as one paste event.",
    note="trusted: list.sort stability, select/os.read/os.write; not decided: real interleavings, thread races, float "
         "remaining-time arithmetic",
    design="DESIGN.md section 3 C08")

CHECKS["C01"] = dict(
    technique="template extraction + abstract interpretation (constant-propagation domain, symbolic text) of the SGR writer over the whole attribute space against a reference SGR machine",
    text="The SGR writer is a closed template program over compile-time tables: wrapper templates and seq() are folded "
         "with symbolic text, Chunk.color_str is abstractly interpreted for every attribute set of the quantifier "
         "(5184+ sets quick, all 59049 thorough) and each resulting token stream is judged by an independent ECMA-48 SGR "
         "machine (state at the text = the set's truthy attributes, default state at the end, only SGR tokens); runs "
         "compose because each starts and ends in the default state; FmtStr.__str__/Chunk.__str__ join every run in order "
         "with the empty separator; the memoised terminal string cannot go stale (C13's rules for _unicode/chunks). For "
         "ESC-free text this decides the whole statement at the level of the extracted writer model.",
    note="trusted: ECMA-48 SGR subset as encoded in sa/sgr.py; the constant folder / decision-list evaluator of sa/ "
         "(fail-closed outside its pure subset); str concatenation semantics",
    design="DESIGN.md section 3 C01", partial=False)

CHECKS["C05"] = dict(
    technique="extracted SGR reader table + from_str fold transition function (abstract interpretation, constant-propagation domain) composed with the writer model over the whole attribute space; regular-language inclusion on the tokenizer patterns",
    text="token_type is abstractly interpreted for every code 0..107 and for parameter lists (singles, all pairs, a;b;a "
         "triples; thorough all triples) and compared with an independent ECMA-48 SGR machine; the token loop of from_str is "
         "extracted as a transition function (update tokens change exactly their keys, text emits one run with the non-None "
         "attributes via parse_args); for every attribute set writer->tokens->reader->fold returns one run with exactly "
         "the set's truthy attributes and a fully reset reader state, so runs compose; inverse tables agree; both tokenizer "
         "patterns are total (DOTALL), tile their input, and recognise (DFA language inclusion) every writer sequence and "
         "every ordinary numeric CSI as one token; CSI wins ties; parse() alternates text and updates in order.",
    note="trusted: ECMA-48 subset in sa/sgr.py, re.match semantics, the folder/evaluator of sa/ (fail-closed); the "
         "composition of the tokenizer regexes with the model is argued from their partition shape, not executed",
    design="DESIGN.md section 3 C05")
CHECKS["C17"] = dict(
    technique="exception-escape analysis by abstract interpretation of token_type / from_str fold / parse_args over every token shape of both tokenizer patterns; regular-language inclusion for tokenizer and fallback patterns; structural try/except rules",
    text="Every token shape either tokenizer pattern can produce (all final bytes of both command classes, numeric/empty/"
         "non-numeric parameter strings, only the groups the producing pattern defines) is pushed through token_type: the "
         "outcome must be updates, None or ValueError; every update the reader can emit is accepted by the from_str fold and "
         "parse_args (which run outside the try); parse() lets only ValueError out, from_str catches it and falls back to "
         "remove_ansi(s); the tokenizer neither raises nor applies int() to non-digits; the fallback is re.sub(p,'',s) with "
         "nothing in the count slot, its language lies within ECMA-48 CSI and contains every numeric CSI; without ESC[ the "
         "input comes back as FmtStr(Chunk(s)). Small-scope exhaustive: fmtstr(s) interpreted for every string of length <= 4 "
         "(thorough <= 5) over {a, newline, ESC, 0x9b, '[', '1', ';', 'm', 'H'} (thorough plus an intermediate and a private "
         "parameter byte) and real-world samples: never raises, plain text verbatim, text only loses characters and only inside "
         "escape-sequence regions, ordinary numeric CSI sequences removed exactly.",
    note="trusted: re/int/str primitives; only the implicit exceptions modelled by the evaluator (dict lookup, int(), "
         "calls with wrong arity) are considered",
    design="DESIGN.md section 3 C17")

CHECKS["C14"] = dict(
    technique="object-aware abstract interpretation (constant-propagation domain, symbolic text) of fmtstr/parse_args/fmtfuncs/copy_with_new_atts/new_with_atts_removed/copy_with_new_str/shared_atts over the finite spelling and attribute domains; guard-key/lookup-key belief rule",
    text="The formatting API is table driven, so it is evaluated on its whole finite spelling domain from the source: every "
         "fmtfuncs helper gives the attribute its name says; all spellings of every colour/style value agree; applying any "
         "attribute (set) to 1-2 run values over a small attribute domain overrides exactly the named attributes and keeps "
         "text and runs; removal over all 1-3 element name sets deletes exactly those; copy_with_new_str keeps a uniformly "
         "formatted string's formatting (empty unformatted runs around included); a catalogue of unknown, contradictory and "
         "mis-typed specifications raises ValueError (24 fmtstr entries; every colour helper given its attribute again "
         "positionally, by keyword name, by number or through style=; a style switched on by name and off by keyword; a "
         "non-boolean style value; mixed case: ValueError or acceptance); guard key == "
         "lookup key for every guarded table lookup of the package; shared_atts over 1-3 run layouts only reports values every "
         "non-empty run has. Layout size is bounded (<= 3 runs); the per-run maps are checked to have no filter.",
    note="trusted: the folder/evaluator of sa/ (fail-closed outside its pure subset), dict/str primitives. Two genuine "
         "deviations are recorded as known findings (helper + style=, non-boolean style value).",
    design="DESIGN.md section 3 C14")
CHECKS["C19"] = dict(
    technique="object-aware abstract interpretation of __eq__/__hash__/__repr__ and the code they reach on a pool of model values; repr strings re-evaluated through the interpreted fmtfuncs helpers",
    text="For every ordered pair of a 14-value pool (same text/different formatting, same display/different run boundaries, "
         "empty runs, False attributes, no runs) f == g equals str(f) == str(g); for every pool value and plain strings "
         "(own terminal string, bare text, other values' strings) f == s and the reflected s == f equal str(f) == s; hash(f) "
         "is the hash of exactly the string equality compares (hash treated symbolically); foreign types give "
         "NotImplemented; repr(f) over all 3^6 style states with colours (plus colour sweeps and multi-run values) parses "
         "as an expression over fmtfuncs names, literals, calls and + and, evaluated through the same interpreted helper "
         "code, has the same characters and effective formatting.",
    note="trusted: Python's reflected-equality protocol, repr(str) yielding a literal, the evaluator of sa/; pools are "
         "finite samples of run layouts",
    design="DESIGN.md section 3 C19")

CHECKS["C03"] = dict(
    technique="constant folding of the key tables + object-aware abstract interpretation of get_key / could_be_unfinished_* on a table-derived finite sequence set against an independent reference segmentation; structural rules for find_key",
    text="Prefix set == all proper prefixes of ESC-initial keys (independently recomputed); table shape; MAX_KEYPRESS_SIZE "
         "adequate; could_be_unfinished_utf8 for every lead byte x length against RFC 3629; could_be_unfinished_char and "
         "get_key interpreted on every table key, every prefix, each followed by representative bytes (thorough: every byte), "
         "every single byte and UTF-8 lead/continuation classes, for utf8/ascii/latin-1 and both `full` values, restricted "
         "to sequences reachable under the feed-one-byte protocol, against a reference segmentation written from the "
         "property (ask for more exactly while the bytes can grow into a table sequence or a valid character; name when "
         "recognised; fail otherwise); find_key's byte-buffer discipline. The sequence set is finite and table-derived, not "
         "the full decision tree (utf-8 continuation bytes are sampled by class).",
    note="trusted: Python codecs, RFC 3629 lengths, the evaluator of sa/; table NAMES have no independent oracle",
    design="DESIGN.md section 3 C03")
CHECKS["C20"] = dict(
    technique="constant folding of the tables + object-aware abstract interpretation of get_key under all three naming modes and of KeyMap.__getitem__ over the whole config-name domain",
    text="curses keys are a subset of curtsies keys; on the table-derived sequence set of C03 (3 encodings x 2 `full` values) the "
         "three naming modes agree on the kind of answer for every reachable case, i.e. cut the stream at the same places; "
         "_key_name is total on every table key; bytes naming returns the keypress bytes, the others table name / character "
         "/ xHH; KeyMap.__getitem__ interpreted for C-a..z, M-<every printable>, F1..F12, SPECIALS and '' produces only names "
         "that occur as values of the folded CURTSIES_NAMES, () for the unbound key, KeyError for a catalogue of invalid names.",
    note="trusted: Python codecs; the evaluator of sa/. Two genuine dead names (C-i, 'M- ') are recorded as known findings.",
    design="DESIGN.md section 3 C20")

CHECKS["C02"] = dict(
    technique="abstract interpretation (constant-propagation domain, own evaluator over the ast) of FullscreenWindow against a reference terminal model over a catalogue of render / resize histories; C19 equality rules and C13 cache-coherence rules re-run",
    text="FullscreenWindow's own __init__/__enter__/render_to_terminal/__exit__ (and the FmtStr/FSArray code they call) are "
         "interpreted with blessed.Terminal replaced by a stub returning xterm control strings; everything written is fed to a "
         "reference terminal model (cursor addressing with clamping, deferred wrap at the last column, line feed scrolling, "
         "erase with current background, SGR via the ECMA-48 machine, alternate screen). For 3 terminal sizes (6 thorough), a "
         "pool of 10 (14) arrays (FSArray / lists of FmtStr / lists of str, heights 0..beyond the screen, row lengths 0..beyond "
         "the width, full-width rows, rows differing only in formatting, formatted blanks) and for every ordered pair A, B the "
         "history A, A, B, A - without and with a resize (taller, wider, smaller, transposed) that leaves junk in every cell - "
         "with hide_cursor on and off: after every render the model screen equals the array's top-left part cell by cell "
         "(character and formatting), all other cells blank and unformatted, cursor at cursor_pos, no line scrolled; leaving "
         "restores the main screen. FmtStr.__eq__ compares terminal strings (C19 H1) and the cached strings cannot go stale "
         "(C13 I1-I3, I7).",
    note="trusted: sa/termmodel.py as a description of the terminal, blessed returning the xterm strings, the evaluator of sa/ "
         "(fail-closed: unknown values, forks and skipped statements are analysis errors); not decided: histories longer than "
         "four renders, larger terminals, wide characters",
    design="DESIGN.md section 3 C02", bounded=True)
CHECKS["C07"] = dict(
    technique="abstract interpretation of CursorAwareWindow against a reference terminal model (which also answers the cursor position query) over a catalogue of initial screens x render histories, compared with the property restated in absolute line numbers",
    text="CursorAwareWindow's own __init__/__enter__ (cursor query included)/render_to_terminal/scroll_down/__exit__ are "
         "interpreted against the reference terminal. For 2 terminal sizes (4 thorough), initial screens with 0..more than a "
         "screenful of old lines and the cursor after them or moved up onto a row holding output, a pool of arrays (height "
         "0..height+3; plain, red-odd, empty and str rows, full-width, arrays continuing a scrolled one) and the histories A, B, "
         "A for ordered pairs, keep_last_line / hide_cursor rotated: with W the window top and S the lines scrolled so far, a "
         "render of n rows scrolls exactly max(0, W+n-(S+height)) lines, returns the number of array rows pushed off the top, "
         "leaves every line above W unchanged, shows array row i on line W+i (also rows now in the scrollback), every line "
         "below blank and unformatted, the cursor on the designated cell; leaving the context leaves every line above W unchanged.",
    note="trusted: sa/termmodel.py (LF at the bottom row scrolls by one, save/restore cursor, CPR), the evaluator of sa/; not "
         "decided: longer histories, rows wider than the terminal, resizes between renders (C18)",
    design="DESIGN.md section 3 C07", bounded=True)
CHECKS["C18"] = dict(
    technique="regular-language comparison (DFA from the regex syntax tree) of the report pattern against the CPR grammar for every input; abstract interpretation of get_cursor_position on scripted streams and of get_cursor_vertical_diff over render / movement histories with nested calls injected; Optional-int truthiness rule",
    text="For every input (language level): the cursor report pattern accepts, as a match of everything read so far, exactly "
         "<anything incl. newlines><ESC[ or 0x9b>digits;digitsR (DFA inclusion both ways). On a catalogue (bounded): "
         "get_cursor_position interpreted on scripted streams - reports (1,1)..(123456,7) in 7- and 8-bit form, 13 kinds of "
         "preceding input (keys, escape sequences, look-alike fragments, newlines, non-ASCII), trailing input, 0/1/3 reads "
         "failing with OSError, with/without extra_bytes_callback, two stream encodings; the reference terminal answers only when "
         "ESC[6n was written: returned pair = report minus one, the callback receives exactly the preceding input encoded with "
         "the stream's encoding, ValueError without a callback, nothing after the report consumed, OSError never escapes. "
         "get_cursor_vertical_diff after a render, on every entry row, for two movements to every row, optionally with a nested "
         "call arriving at a read of the query in progress: change of top_usable_row + returned value == observed movement for "
         "every call; the nested call returns 0 and changes nothing. Optional-int attributes are never tested by truthiness.",
    note="trusted: re semantics, CPR format, sa/termmodel.py, the evaluator of sa/; not decided: the blessed path, streams and "
         "movement histories outside the catalogue",
    design="DESIGN.md section 3 C18", bounded=True)
CHECKS["C04"] = dict(
    technique="abstract interpretation of FSArray.__setitem__/__getitem__/fsarray (and splice, setslice_with_length, normalize_slice, fmtstr ...) on a catalogue of arrays, regions, blocks and assignment histories against an independent reference grid; who-may-write rule for rows / width over the package",
    text="About 1000 (array, region, block) cases (2300 thorough) - 4 (10) arrays up to 4 rows x 6 columns incl. zero rows / "
         "columns and constructor formatting; regions inside, straddling and beyond the height; block rows empty, shorter than, "
         "equal to and longer than the region; plain, formatted, given as FSArray, same text with other formatting; wrong row "
         "counts; int and slice indices - plus three scripted assignment histories are evaluated from the source and compared "
         "cell by cell (character and formatting) with a grid model written from the statement: region shows the block (blank "
         "where shorter), cells outside untouched, grows downward with blank rows, never wider than the array, a rejected "
         "assignment raises and changes no cell; region / row reads return what the cells show; fsarray builds rows that show the "
         "strings and rejects strings wider than an explicit width. FSArray.rows / num_columns are written only inside the "
         "class and fsarray().",
    note="trusted: the reference grid in sa/rules/c04.py, the evaluator of sa/; not decided: shapes beyond the catalogue",
    design="DESIGN.md section 3 C04", bounded=True)
CHECKS["C15"] = dict(
    technique="abstract interpretation of FmtStr's string methods on a catalogue of values and argument tuples, compared with CPython's str / re.split applied to the plain text, formatting compared per character",
    text="Delegated methods (upper, lower, strip, center, replace, find, count, startswith, endswith, zfill, title, isdigit, "
         "rsplit, index via __getattr__) on values with shared and non-shared formatting; join over all lists of up to 3 items of "
         "four kinds for several separators; ljust / rjust for widths below, at and above the length with default and explicit "
         "fill; split with literal and regex separators present / absent / adjacent / at the ends; splitlines with keepends False "
         "and True on texts with \\n, \\r\\n, \\r and the rarer line boundaries: same text or non-text answer as str on the "
         "plain text, split / splitlines pieces keep each character's formatting, other text results carry exactly the "
         "shared formatting (shared_atts checked on layouts with empty runs), unknown attributes raise AttributeError.",
    note="trusted: CPython str / re as oracle (applied to folded text only), the evaluator of sa/; not decided: arguments "
         "outside the catalogue, split() without a separator, maxsplit (raises NotImplementedError by design)",
    design="DESIGN.md section 3 C15", bounded=True)
CHECKS["C12"] = dict(
    technique="abstract interpretation of every context manager of the package against reference models of the OS state and of the terminal, with crash-point injection at every OS call / terminal write of a bounded body; who-may-call rule for the state-changing primitives over the whole package",
    text="Nonblocking, Termmode, Cbreak, ReplacedSigIntHandler, Input, FullscreenWindow and CursorAwareWindow are interpreted "
         "against a reference OS model (termios attributes, fcntl flags, descriptor table, SIGINT handler, signal wake-up fd, "
         "main / non-main thread, scripted select / read) and the reference terminal. Scenarios: enter / exit for every "
         "combination of sigint_event, disable_terminal_start_stop, hide_cursor, keep_last_line, thread, platform, two tty "
         "attribute sets, three flag words, previous handler function / SIG_DFL / SIG_IGN, objects constructed before the state "
         "changed, left normally and with an exception triple; a body of five requests (resp. three renders) with the k-th OS call "
         "(resp. terminal write) raising KeyboardInterrupt instead of taking effect, for every k; stream flags after every "
         "request; three enter / request / exit cycles on one and on fresh objects; an Input nested in a window. After leaving, "
         "tty attributes, flags, descriptor table, SIGINT handler and wake-up fd equal the state before entering, the cursor is "
         "visible, the alternate screen is left and the main screen untouched. Structural, every call site of the package: the "
         "raw state-changing primitives are called only in __enter__/__exit__ of context managers, helpers reachable only from "
         "those, or a local save / try / finally restore; context managers are used only through `with`, paired delegation or "
         "returned; no yield inside such a `with`.",
    note="trusted: sa/osmodel.py and sa/termmodel.py as descriptions of the OS / terminal, Python `with` semantics, the evaluator "
         "of sa/; not decided: an exception between two bytecodes of the restoring code or between an OS call taking effect "
         "and its result being stored, other threads, bodies other than the catalogue's. Two keys of one genuine leak "
         "(threadsafe_event_trigger) are known findings.",
    design="DESIGN.md section 3 C12", bounded=True)

CHECKS["C06"] = dict(
    technique="abstract interpretation of FmtStr.__getitem__/__add__/__radd__/__mul__/__len__/join on a small-scope exhaustive catalogue, compared with CPython's own str and list operations on the text and on the per-character cells",
    text="Small-scope exhaustive: for a pool of 7 run layouts (no runs, empty runs in every position, up to 4 characters) every index "
         "and every pair of slice bounds in [-len-2, len+2] plus None, + with every pool value and with plain str on either side, "
         "* 0..3, len(), and join of every list of up to 3 items of four kinds under a plain, an empty and a formatted separator are "
         "evaluated from the source and compared with the SAME operation of CPython on the plain text (characters, IndexError) and "
         "on the list of per-character (character, formatting) cells (formatting carried along; plain str characters "
         "unformatted). The oracle is Python's str / list semantics, nothing is re-implemented. Every operation is also run on "
         "operands whose memoised views (.s, len, width, terminal string) were filled first; every result's own .s, len() and str() "
         "(what a terminal shows, through the reference SGR machine) must agree with its runs; every FmtStr operand must read the "
         "same after the operation (L8).",
    note="trusted: the evaluator of sa/; not decided: longer values, slice steps (NotImplementedError by design), larger repeat counts",
    design="DESIGN.md section 3 C06", bounded=True)
CHECKS["C09"] = dict(
    technique="abstract interpretation of FmtStr.splice / append on a small-scope exhaustive catalogue, compared with list splicing of the per-character cells",
    text="Small-scope exhaustive: for a pool of 8 run layouts (no runs, empty leading / middle / trailing runs, up to 5 characters), 6 "
         "new values (empty and non-empty str, one- and two-run FmtStr, empty FmtStr, FmtStr without runs) and every 0 <= start <= "
         "end <= len+2 as well as end omitted, splice(new, start, end) is evaluated from the source and compared with "
         "cells(f)[:start] + cells(new) + cells(f)[end:] (Python list slicing as oracle); append(x) is splice at the end; the "
         "receiver reads the same (cells and terminal string) before and after. Every call is repeated with receiver and new value "
         "looked at first (memoised views filled); new values include plain strs of control, zero-width and escape characters "
         "(newline + tab, a lone combining mark, ESC O P, 8-bit CSI) which are still unformatted characters; the result's own .s, "
         "len(), str() and full slice must agree with its runs.",
    note="trusted: the evaluator of sa/; not decided: longer values, start > end, negative positions",
    design="DESIGN.md section 3 C09", bounded=True)

CHECKS["C10"] = dict(
    technique="abstract interpretation of FmtStr.width / width_at_offset / width_aware_slice on a catalogue of narrow, double-width and combining characters, compared with a column picture written from the statement; the compiled width functions are replaced by the pure-Python wcwidth package (stated assumption)",
    text="For every text of up to 4 characters (thorough 5) over {a, b, U+FF25 (double width), U+0301 (combining)} as one run and cut "
         "into two runs at every position: f.width is the number of columns the characters occupy, width_at_offset(n) the number the "
         "first n occupy for every n, and for every column range 0 <= a <= b <= width+2 width_aware_slice(a:b) has the width of the "
         "requested columns that exist, holds every character lying wholly inside with its formatting and a space with the "
         "character's formatting for a double-width character cut by either edge. Two-run values are also arrived at through a "
         "history (an operand whose views were memoised, then + with a plain str on either side or another looked-at value).",
    note="ASSUMPTION: cwcwidth (a compiled extension outside the analysed source) agrees with the wcwidth package on this alphabet; "
         "trusted: the evaluator of sa/; not decided: longer texts, the position of a combining character whose base is cut",
    design="DESIGN.md section 3 C10", bounded=True)
CHECKS["C11"] = dict(
    technique="abstract interpretation of FmtStr.width_aware_splitlines (generator and ChunkSplitter) on a catalogue, the clauses of the statement checked on the output lines; width functions replaced by the wcwidth package (stated assumption)",
    text="For every text of up to 5 characters (thorough 6) over {a, b, U+FF25, U+0301} as one run, two runs cut at every position and "
         "with empty runs inserted, and columns 2..5: every line is a FmtStr, none wider than the limit, every line but the last "
         "exactly as wide, none empty; with padding removed the lines concatenated are the value's characters in order with "
         "their formatting; the only additions are single spaces ending a line that is one column short where the next character "
         "is double-width, formatted like that character; columns < 2 raises ValueError. Values that hold the same run object "
         "several times in a row (f * k) are included; two lazy iterators over values that share runs, consumed alternately, must "
         "each give what they give alone (S5). Clauses are checked on the output, the wrapping is not re-implemented.",
    note="ASSUMPTION: cwcwidth agrees with the wcwidth package on this alphabet; trusted: the evaluator of sa/ (generators included); "
         "not decided: longer texts and larger limits",
    design="DESIGN.md section 3 C11", bounded=True)
CHECKS["C16"] = dict(
    technique="abstract interpretation of linesplit on a small-scope catalogue of texts and run layouts, the clauses of the statement checked on the output lines",
    text="For every text of up to 5 symbols (thorough 6) over {a, b, space, tab} (thorough plus newline and U+3000; longer ones thinned "
         "deterministically), as a str and as two FmtStr layouts whose formatting changes inside words and inside whitespace, some "
         "longer hand-written texts, and columns 1, 2, 3, 5, 9 (thorough 1..6, 9): no line longer than the limit, empty or "
         "starting / ending with whitespace; the non-blank characters of all lines in order are those of the text with their "
         "formatting; words on a line are separated by exactly one space whose formatting is that of the whitespace it replaces "
         "when that is uniform and never an attribute none of it had; a break falls between two words only when the next did not "
         "fit; a longer word is cut into full-length pieces; a text without words gives no lines. Layouts include an empty run "
         "inside a gap and gaps that carry different values of the same attribute; texts include Unicode whitespace (U+3000, "
         "U+2003, U+2028, U+00A0, U+001C); a second call in the same process must obey the same clauses whatever the first "
         "one left behind (W7). Clauses are checked on the output, the wrapping is not re-implemented.",
    note="trusted: the evaluator of sa/, str.split's notion of a word; not decided: longer texts, whitespace kinds beyond the sampled ones",
    design="DESIGN.md section 3 C16", bounded=True)

# Widenings after seeded rounds 6 and 7 ("the value / object under test has been used before"), appended to the claim texts
ALSO = {
    "C16": "Also: values built as plain str + looked-at value; an empty but formatted run inside a gap; the same object wrapped again after the caller edited the list the first call returned.",
    "C10": "Also: values cut with [] out of a longer value that had been measured.",
    "C09": "Also: a second splice on the same receiver; receivers that are pieces of splitlines(True) of a looked-at value; a nine-run receiver whose neighbouring runs carry the same attribute names with different values (round 10).",
    "C06": "Also: sequences of lookups on ONE object (a value in which a run occurs twice); a plain str that looks like an escape sequence on the left of +; a ten-run value of 11 characters with every index and pair of bounds, and * 4, * 5 (round 10).",
    "C01": "Also: every value of a derived pool (each public operation applied to base values whose views were memoised first) must display its own runs; concrete probe runs that start with zero-width characters.",
    "C02": "Also: rows with blank runs whose formatting is visible (inverted / underlined coloured blanks), full-width rows ending in plain blanks, the empty array between two frames, and one list object edited in place between renders. One FSArray edited row by row between renders; the same long rows rendered at every width.",
    "C03": "Also: single characters are reported as themselves under CURSES and BYTES naming too, and an encoding behaves the same under every name the codec registry knows it by (UTF-8 / U8, ANSI_X3.4-1968 / 646, iso8859-1 / L1). The decoder under an incremental-codec rewrite is followed (stateful codecs live on between calls); an Input left and re-entered with keys buffered; Inputs used while the locale's encoding changes.",
    "C04": "Also: regions that start at or beyond the right edge (zero-column arrays included) and single-cell assignments a[r, c] with a block that does not have exactly one row - rejected, no cell changed. What a read returns belongs to the reader (editing it, or growing the array afterwards, does not reach the other); fsarray of FmtStr lines with formatting arguments.",
    "C05": "Also: from_str(str(f)) against f for every value of the derived pool (operations on base values that were rendered first).",
    "C07": "Also: full-width rows ending in plain blanks after longer text, and one list object edited in place between renders. Rows holding a double-width or combining character and the same row extended (the terminal model lays characters out by width).",
    "C08": "Also: bytes already waiting in the terminal's input queue when the context is entered (the OS model discards them on TCSAFLUSH, as a tty does). A wake-up byte left over from a SIGINT while a trigger fires during the request's second wait; the context left and re-entered.",
    "C12": "Also: every helper context manager is entered and left a second time from a different starting state - leaving restores what THAT entering changed. An Input entered again on the other kind of thread.",
    "C13": "Also: what a value displays does not depend on look-alike values displayed before it in the same process (0 / False, 1 / True, 31 / 31.0 as attribute values; functools.lru_cache is modelled with its == / hash keys). A run's text / attributes cannot be re-bound (property without setter); setslice_with_length, copy, splitlines(True) among the operations.",
    "C14": "Also: every fmtfuncs helper still does what its name says after calls with further positional names (accepted or rejected), and shared_atts answers the same after the caller edited the dict it got from an earlier call. Look-alike FmtStr inputs (same display, different attributes) formatted one after the other; tuple-valued and mixed-case contradictory specifications.",
    "C15": "Also: receivers arrived at through a history (plain str + looked-at value, looked-at value + plain str) for every method of the generated pool. Receivers of the derived pool (every public operation on looked-at values), receivers whose shared_atts answer the caller edited, join of a one-shot iterator.",
    "C17": "Also: ordinary text that means something to str formatting (%s, 50% done, {0}) next to sequences that force the error / fallback path. Conversions after other conversions in the same process (a FmtStr holding raw escape text, a string cut inside a parameter list, repeats).",
    "C18": "Also: extra_bytes_callback attached, replaced or removed after construction - the callback in place at the time of the query counts. A stand-alone position query between render and diff; the terminal made taller; a further report left unread after the call.",
    "C19": "Also: every value of the derived pool equals, hashes like and repr-evaluates to a freshly built value with the same runs; repr of runs whose text holds an escape character that is not an escape sequence. repr evaluated after the helpers were called with extra names earlier in the process.",
    "C20": "Also: a burst read in one go (a paste event) under each naming mode - bytes naming gives the bytes of each keypress, all modes cut alike. One Input whose keynames attribute is set to each mode in turn; two pastes in one process.",
}

NOT_APPLICABLE = []

ALL = ["C%02d" % i for i in range(1, 21)]


def main():
    checks = []
    for pid in sorted(CHECKS):
        c = CHECKS[pid]
        checks.append({
            "property_id": pid,
            "quick_cmd": "./check %s --tier quick" % pid,
            "thorough_cmd": "./check %s --tier thorough" % pid,
            "evidence_file": "evidence/%s.json" % pid,
            "replay_cmd_template": "./check %s --replay {path}" % pid,
            "engine": "sa",
            "level_claimed": {"category": "other", "text": c["text"] + (" " + ALSO[pid] if pid in ALSO else "") + (BOUNDED if c.get("bounded") else PARTIAL if c.get("partial", True) else ""),
                              "design_ref": c["design"]},
            "level_note": c["note"],
            "technique": "static analysis: " + c["technique"],
        })
    na = [{"property_id": p, "reason": r} for p, r in NOT_APPLICABLE]
    claimed = set(CHECKS) | {p for p, _ in NOT_APPLICABLE}
    for p in ALL:
        if p not in claimed:
            na.append({"property_id": p, "reason": "check under construction in this session (planned as claimed in DESIGN.md); not claimed until its checker is committed"})
    man = {
        "version": 1,
        "setup_cmd": "/venv/bin/python -B -m compileall -q sa >/dev/null 2>&1; /venv/bin/python -B -c \"import sys; sys.path.insert(0,'.'); import sa.cli\"",
        "hooks": {
            "guard": "CURTSIES_VERIF",
            "enable": "none: static analysis reads /repo/curtsies/*.py from disk; no source line of curtsies reads the guard and no hook was added",
            "baseline_off_cmd": "cd /repo && /venv/bin/python -m pytest -ra -q -p no:cacheprovider --timeout=900 --continue-on-collection-errors",
            "source_commits": [],
            "add_only": True,
        },
        "engines": [
            {"name": "sa", "path": "sa/", "serves_properties": sorted(CHECKS),
             "kind_free_text": "repository-specific static analysers on the stdlib ast module: source model with MRO and import "
                               "resolution, constant folder for the package's tables, abstract interpreter of the package's "
                               "source (constant-propagation domain, symbolic text, model objects, stubs for everything outside "
                               "the package), statement-level CFG with dominators and path enumeration, regex syntax trees to "
                               "DFAs with language inclusion, reference models (SGR machine, terminal, OS state); never imports "
                               "curtsies and never executes it with CPython"},
        ],
        "checks": checks,
        "not_applicable": sorted(na, key=lambda d: d["property_id"]),
        "notes": "All checks are static (exit 0 held / 1 VIOLATION / 2 ANALYSIS-ERROR). known_findings.json lists genuine defects "
                 "recorded rather than repaired and the fix: commits made in /repo. selftest/fixtures holds positive fixtures, "
                 "selftest/benign 84 behaviour-preserving refactorings used to measure false alarms, seeded/ 107 independently "
                 "written breaking changes and (MATRIX.md) which check catches them. Claims marked BOUNDED hold on the finite "
                 "catalogue they name; see DESIGN.md sections 0 and 1.",
    }
    with open(os.path.join(HERE, "MANIFEST.json"), "w") as f:
        json.dump(man, f, indent=1)
        f.write("\n")


if __name__ == "__main__":
    main()
