#!/bin/bash
# usage: tools/harvest_seed.sh <PROP> <LETTER> [srcdir]
# Verifies an independently written breaking change (patch.diff + demo.py + notes.md) against the CURRENT /repo HEAD
# in a scratch worktree outside /repo and /verif, and stores it as /verif/seeded/<PROP>-<LETTER>/ when confirmed:
#   1. patch applies, 2. baseline tests still pass with it, 3. demo FAILS with it, 4. demo PASSES without it.
set -u
P=$1; L=$2
SRC=${3:-/tmp/wt/$P/_out/$L}
ID="$P-$L"
WT=$(mktemp -d /tmp/seedverify.XXXXXX)
rmdir "$WT"
git -C /repo worktree add -q --detach "$WT" HEAD || exit 3
cleanup() { git -C /repo worktree remove --force "$WT" >/dev/null 2>&1; rm -rf "$WT"; }
trap cleanup EXIT
mkdir -p "$WT/_out/$L"
cp "$SRC/demo.py" "$WT/_out/$L/demo.py"
cd "$WT" || exit 3
res_pristine=$( (timeout 300 /venv/bin/python _out/$L/demo.py >/tmp/seed_$ID.pristine.log 2>&1; echo $?) )
if ! git apply --3way "$SRC/patch.diff" >/tmp/seed_$ID.apply.log 2>&1; then
  if ! git apply "$SRC/patch.diff" >>/tmp/seed_$ID.apply.log 2>&1; then
    echo "$ID: PATCH DOES NOT APPLY to current HEAD"; cat /tmp/seed_$ID.apply.log | head -5; exit 1
  fi
fi
git diff HEAD -- curtsies > /tmp/seed_$ID.patch
tests=$(timeout 900 /venv/bin/python -m pytest -q -p no:cacheprovider --timeout=900 2>&1 | tail -1)
res_mut=$( (timeout 300 /venv/bin/python _out/$L/demo.py >/tmp/seed_$ID.mut.log 2>&1; echo $?) )
echo "$ID: pristine-demo-exit=$res_pristine mutated-demo-exit=$res_mut tests: $tests"
if [ "$res_pristine" = "0" ] && [ "$res_mut" != "0" ] && echo "$tests" | grep -q "^77 passed"; then
  D=/verif/seeded/$ID
  mkdir -p "$D"
  cp /tmp/seed_$ID.patch "$D/patch.diff"
  cp "$SRC/demo.py" "$D/demo.py"
  [ -f "$SRC/notes.md" ] && cp "$SRC/notes.md" "$D/notes.md"
  /venv/bin/python - "$D" "$P" "$L" "$tests" "$res_mut" <<'EOF'
import json, sys, subprocess, re
d, p, l, tests, rc = sys.argv[1:6]
notes = ""
try:
    notes = open(d + "/notes.md", encoding="utf8").read()
except Exception:
    pass
files = sorted(set(re.findall(r"^\+\+\+ b/(\S+)", open(d + "/patch.diff").read(), re.M)))
head = subprocess.run(["git", "-C", "/repo", "rev-parse", "--short", "HEAD"], capture_output=True, text=True).stdout.strip()
json.dump({
    "id": "%s-%s" % (p, l), "breaks_property": p, "files": files,
    "needs_to_manifest": notes.strip()[:1500],
    "verified_against_repo_head": head,
    "ran": ["git worktree add <scratch> HEAD", "demo on pristine -> exit 0",
            "git apply patch.diff", "pytest baseline -> %s" % tests, "demo with change -> exit %s" % rc,
            "worktree removed"],
    "how_to_run_demo": "cd <tree> && mkdir -p _out/%s && cp demo.py _out/%s/ && /venv/bin/python _out/%s/demo.py" % (l, l, l),
}, open(d + "/meta.json", "w"), indent=1)
EOF
  echo "$ID: KEPT in $D"
else
  echo "$ID: REJECTED"; tail -3 /tmp/seed_$ID.mut.log; tail -3 /tmp/seed_$ID.pristine.log
fi
