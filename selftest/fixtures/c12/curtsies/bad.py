"""Positive fixture for the C12 rules: every class/function here breaks exactly the rule named in its docstring.
Never imported, only parsed."""
import fcntl
import os
import signal
import termios
import tty


class NoSave:
    """M1-save-before-change: changes tty attributes without saving them first."""

    def __init__(self, stream):
        self.stream = stream

    def __enter__(self):
        tty.setcbreak(self.stream, termios.TCSANOW)
        self.original_stty = termios.tcgetattr(self.stream)

    def __exit__(self, type=None, value=None, traceback=None):
        termios.tcsetattr(self.stream, termios.TCSANOW, self.original_stty)


class NoRestoreOnOnePath:
    """M2-restore-on-all-paths: early return skips the restore; M4: the guard attribute is reassigned later."""

    def __init__(self, stream, quiet):
        self.stream = stream
        self.quiet = quiet

    def __enter__(self):
        self.original_stty = termios.tcgetattr(self.stream)
        if self.quiet:
            tty.setraw(self.stream)

    def __exit__(self, type=None, value=None, traceback=None):
        if self.stream is None:
            return
        termios.tcsetattr(self.stream, termios.TCSANOW, self.original_stty)

    def toggle(self):
        self.quiet = not self.quiet


class LeakyPipe:
    """M2-fd-closed: one end of the pipe is never closed."""

    def __enter__(self):
        self.r, self.w = os.pipe()

    def __exit__(self, type=None, value=None, traceback=None):
        os.close(self.r)


class WrongValue:
    """M3-restore-value-is-saved: restores flags with something that is not the saved value."""

    def __init__(self, fd):
        self.fd = fd

    def __enter__(self):
        self.orig_fl = fcntl.fcntl(self.fd, fcntl.F_GETFL)
        fcntl.fcntl(self.fd, fcntl.F_SETFL, self.orig_fl | os.O_NONBLOCK)

    def __exit__(self, type=None, value=None, traceback=None):
        fcntl.fcntl(self.fd, fcntl.F_SETFL, self.orig_fl | os.O_NONBLOCK)


class BadSignature:
    """M9-exit-signature"""

    def __enter__(self):
        pass

    def __exit__(self):
        pass


def stray_primitive(stream):
    """M5-who-may-call: raw mode set outside any context manager."""
    tty.setraw(stream)


def stray_pipe():
    """M5-fd-paired: descriptors opened and dropped."""
    r, w = os.pipe()
    return w


def unused_cm(stream):
    """M6-cm-used-through-with: constructed, entered by hand, never exited; also M6-bare-enter."""
    c = NoSave(stream)
    c.__enter__()
    return 1


def gen(stream):
    """M7-no-yield-inside-with"""
    with NoSave(stream):
        yield 1


class Win:
    def __init__(self, t):
        self.t = t
        self.hide_cursor = False

    def write(self, s):
        pass

    def render(self):
        """M10-render-cursor-paired: hides and only conditionally shows."""
        if not self.hide_cursor:
            self.write(self.t.hide_cursor)
        self.write("x")
        if self.hide_cursor:
            self.write(self.t.normal_cursor)
