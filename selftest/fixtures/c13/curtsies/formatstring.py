"""Positive fixture for the C13 rules (never imported, only parsed). Each construct breaks the rule named beside it."""
from functools import cached_property


class FrozenAttributes(dict):
    def __setitem__(self, key, value):
        raise Exception("Cannot change value.")

    def update(self, *a, **k):        # I5-frozen-mutator-raises: does not raise; pop/clear/... missing
        return None

    def extend(self, d):
        self.update(d)                # I5: touches self
        return self

    def remove(self, *keys):
        return FrozenAttributes((k, v) for k, v in self.items() if k not in keys)


class Chunk:
    def __init__(self, s, atts=None):
        self._s = s
        self._atts = FrozenAttributes(atts or {})
        self.tag = 0

    @property
    def atts(self):
        return self._atts

    @cached_property
    def color_str(self):              # I4-cached-reads-immutable
        return self._s + str(self.tag)


class FmtStr:
    def __init__(self, components):
        self.chunks = components      # I2-init-copies-components
        self._unicode = None
        self._len = 0                 # I3-memo-init-none
        self._s = None
        self._width = None
        self.extra = 1

    def __str__(self):
        if self._unicode is not None:
            return self._unicode
        self._unicode = "".join(str(c) for c in self.chunks) + str(self.extra)   # I3-memo-value-from-chunks
        return self._unicode

    def __len__(self):
        if self._len is not None:
            return self._len
        value = sum(len(c) for c in self.chunks)
        self._len = value
        return value

    @property
    def width(self):
        if self._width is not None:
            return self._width
        self._width = 0               # I3-memo-single-store
        for c in self.chunks:
            self._width += len(c)
        return self._width

    @property
    def s(self):
        if self._s is not None:
            return self._s
        self._s = "".join(c._s for c in self.chunks)
        self.extra += 1               # I3-memo-store-then-return
        return self._s

    def __setitem__(self, i, v):      # I6-setitem-raises
        self.chunks[i] = v            # I2 subscript store

    def __iadd__(self, other):        # I6-no-inplace-operators
        self.chunks.extend(other.chunks)   # I2
        return self

    def join(self, items):
        before = self.chunks
        for s in items:
            before.extend(s.chunks)   # I2 through alias
        return FmtStr(before)

    def copy(self):
        r = FmtStr(list(self.chunks))
        r._unicode = self._unicode    # I1-field-store
        return r

    def restyle(self, **kw):
        a = self.chunks[0].atts
        a.update(kw)                  # I7-no-mutation-of-atts through alias
        self.chunks[0]._atts["x"] = 1  # I7 subscript store
        return self
