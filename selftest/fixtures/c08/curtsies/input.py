"""Positive fixture for the C08 queue rules (never imported, only parsed)."""
import time


class Input:
    def __init__(self):
        self.queued_events = []
        self.queued_scheduled_events = []
        self.sigints = []
        self.unprocessed_bytes = []

    def reset(self):
        self.queued_events = []                      # Q1-queue-assignment
        self.unprocessed_bytes += [b"x"]             # Q1-queue-assignment (augmented)

    def bad_ops(self):
        self.queued_events.insert(0, 1)              # Q1-queue-discipline
        self.queued_events.pop()                     # Q1-queue-discipline (LIFO)
        self.unprocessed_bytes.pop(0)                # Q2-popped-value-delivered (dropped)
        self.queued_events[0] = None                 # Q1 subscript store

    def _send(self):
        if self.queued_scheduled_events:
            self.queued_scheduled_events.sort()      # Q3-order-safe-sort
        when = 0
        return self.queued_scheduled_events.pop(0)[1]    # Q3-pop-after-sort, Q3-pop-only-when-due
